"""Self-validation corpus: in-memory single edits of the current sources."""

VARIANTS = []

HX = "trie/hexary.py"
BN = "trie/binary.py"
BR = "trie/branches.py"
SM = "trie/smt.py"
DB = "trie/utils/db.py"
ND = "trie/utils/nodes.py"
NB = "trie/utils/nibbles.py"
FG = "trie/fog.py"
IT = "trie/iter.py"
EX = "trie/exceptions.py"
TY = "trie/typing.py"
VA = "trie/validation.py"


def V(id, prop, file, old, new, expect="fire", rule=None, props=None, edits=None, only=False):
    d = {"id": id, "prop": prop, "file": file, "old": old, "new": new, "expect": expect, "rule": rule, "only": only}
    if props:
        d["props"] = props
    if edits:
        d["edits"] = edits
    VARIANTS.append(d)


# --- C04 -------------------------------------------------------------------
V("c04-do-deletes-true", "C04", HX, "batch_commit(do_deletes=self.is_pruning)", "batch_commit(do_deletes=True)", rule="EFF2")
V("c04-delete-outside-guard", "C04", HX, "        self.root_hash = self._set_raw_node(root_node)\n",
  "        self.db.pop(self.root_hash, None)\n        self.root_hash = self._set_raw_node(root_node)\n", rule="EFF2")
V("c04-complete-pruning-unguarded", "C04", HX, "            if self.is_pruning:\n                self._complete_pruning()",
  "            if self._pending_prune_keys is not None:\n                self._complete_pruning()", rule="EFF2")
V("c04-key-not-bound", "C04", HX, "            node_hash = keccak(encoded_node)\n        else:", "            node_hash = keccak(key)\n        else:", rule="EFF3")
V("c04-persist-wrong-key", "C04", HX, "            self._set_db_value(key, value)\n        return key", "            self._set_db_value(value[:32], value)\n        return key", rule="EFF3")
V("c04-root-before-write", "C04", HX, "        self.root_hash = self._set_raw_node(root_node)\n\n    def get_node",
  "        key, value = self._node_to_db_mapping(root_node)\n        self.root_hash = key\n        self._set_raw_node(root_node)\n\n    def get_node", rule="ORD1")
V("c04-silent-alias-db", "C04", HX, "    def _set_db_value(self, key, value):\n        self.db[key] = value",
  "    def _set_db_value(self, key, value):\n        store = self.db\n        store[key] = value", expect="silent")
V("c04-silent-guard-alias", "C04", HX, "            if self.is_pruning:\n                self._complete_pruning()",
  "            pruning = self.is_pruning\n            if pruning:\n                self._complete_pruning()", expect="silent")
V("c04-silent-not-not", "C04", HX, "            if self.is_pruning:\n                self._complete_pruning()",
  "            if not self.is_pruning:\n                pass\n            else:\n                self._complete_pruning()", expect="silent")
# --- C12 -------------------------------------------------------------------
V("c12-delete-clears-root-first", "C12", BN, "        self.root_hash = self._set(self.root_hash, encode_to_bin(key), b\"\")",
  "        old = self.root_hash\n        self.root_hash = BLANK_HASH\n        self.root_hash = self._set(old, encode_to_bin(key), b\"\")", rule="ORD1")
V("c12-hash-of-prefix", "C12", BN, "        node_hash = keccak(node)\n        self.db[node_hash] = node", "        node_hash = keccak(node[1:])\n        self.db[node_hash] = node", rule="EFF3")
V("c12-get-writes", "C12", BN, "        validate_is_bytes(key)\n\n        return self._get(self.root_hash, encode_to_bin(key))",
  "        validate_is_bytes(key)\n        self.db.pop(key, None)\n\n        return self._get(self.root_hash, encode_to_bin(key))", rule="EFF4")
# --- C13 -------------------------------------------------------------------
V("c13-db-keyed-by-prefix", "C13", BR, "db = {keccak(node): node for node in branch}", "db = {node[:32]: node for node in branch}", rule="EFF3")
V("c13-helper-writes", "C13", BR, "    node = db[node_hash]\n    nodetype, left_child, right_child = parse_node(node)\n    if nodetype == LEAF_TYPE:\n        if not keypath:",
  "    node = db[node_hash]\n    db[node_hash] = node\n    nodetype, left_child, right_child = parse_node(node)\n    if nodetype == LEAF_TYPE:\n        if not keypath:", rule="EFF4")
# --- C14 -------------------------------------------------------------------
V("c14-set-wrong-key", "C14", SM, "            self.db[node_hash] = node\n\n            # Update", "            self.db[sibling_node] = node\n\n            # Update", rule="EFF3")
# --- C01 -------------------------------------------------------------------
V("c01-get-writes-root", "C01", HX, "        trie_key = bytes_to_nibbles(key)\n        root_hash = self.root_hash\n        try:",
  "        trie_key = bytes_to_nibbles(key)\n        root_hash = self.root_hash\n        self.root_hash = root_hash\n        try:", rule="EFF4")

# --- defects D1-D3 coming back must be reported again ---------------------------
V("d1-returns", "C01", HX, "            # extension's path: in both cases nothing is stored at the requested key.\n            return BLANK_NODE",
  "            if len(remaining_key) > 0:\n                raise ValidationError('unexpected')\n            return BLANK_NODE", rule="EXC1")
V("d1-returns-c03", "C03", HX, "            # extension's path: in both cases nothing is stored at the requested key.\n            return BLANK_NODE",
  "            if len(remaining_key) > 0:\n                raise ValidationError('unexpected')\n            return BLANK_NODE", rule="EXC1")
V("d2-returns", "C05", HX, "scratch_db, self.root_hash, prune=True, ref_count=batch_ref_count", "scratch_db, self.root_hash, prune=True, ref_count=self._ref_count", rule="AL2")
V("d3-returns", "C06", HX, "        self.root_hash = memory_trie.root_hash\n",
  "        self.root_hash = self._set_raw_node(memory_trie.get_node(memory_trie.root_hash))\n", rule="AL2")
# --- C01 / C03 EXC1 ---------------------------------------------------------------
V("c01-new-guarded-raise-leaf", "C01", HX, "            if remaining_key == extract_key(node):\n                return node[1]",
  "            if len(remaining_key) > len(extract_key(node)):\n                raise ValidationError('too long')\n            if remaining_key == extract_key(node):\n                return node[1]", rule="EXC1")
V("c01-silent-infeasible-raise", "C01", HX, "        if node_type == NODE_TYPE_BLANK:\n            return BLANK_NODE\n        elif node_type == NODE_TYPE_LEAF:\n            if remaining_key == extract_key(node):",
  "        if node_type == NODE_TYPE_BLANK:\n            if len(remaining_key) > 0:\n                raise ValidationError('blank with residue')\n            return BLANK_NODE\n        elif node_type == NODE_TYPE_LEAF:\n            if remaining_key == extract_key(node):", expect="silent")
V("c03-proof-trie-pruning", "C03", HX, "        trie = cls({})\n", "        trie = cls({}, prune=True)\n", rule="EXC1")
V("c03-catch-keyerror-instead", "C03", HX, "            except MissingTrieNode as e:\n                raise BadTrieProof(\n                    f\"Missing proof node with hash {e.missing_node_hash}\"\n                )",
  "            except KeyError as e:\n                raise BadTrieProof(\n                    f\"Missing proof node with hash {e}\"\n                )", rule="EXC5")
# --- C07 ----------------------------------------------------------------------------
V("c07-get-node-outside-try-set", "C07", HX, "        try:\n            root_node = self.get_node(self.root_hash)\n\n            if value == b\"\":",
  "        root_node = self.get_node(self.root_hash)\n        try:\n            if value == b\"\":", rule="EXC2")
V("c07-handler-narrowed", "C07", HX, "            new_node = self._delete(root_node, trie_key)\n        except KeyError as exc:", "            new_node = self._delete(root_node, trie_key)\n        except IndexError as exc:", rule="EXC2")
V("c07-swapped-hash-root", "C07", HX, "                traverse_exc.missing_node_hash,\n                root_hash,\n                key,", "                root_hash,\n                traverse_exc.missing_node_hash,\n                key,", rule="EXC3")
V("c07-wrong-prefix-full-key", "C07", HX, "                raise MissingTraversalNode(exc.args[0], used_key)", "                raise MissingTraversalNode(exc.args[0], trie_key)", rule="EXC3")
V("c07-wrong-prefix-off-by-one", "C07", HX, "                used_key = trie_key[: len(trie_key) - len(remaining_key)]\n\n                raise MissingTraversalNode", "                used_key = trie_key[: len(trie_key) - len(remaining_key) - 1]\n\n                raise MissingTraversalNode", rule="EXC3")
V("c07-complete-pruning-in-finally", "C07", HX, "            yield\n            if self.is_pruning:\n                self._complete_pruning()\n        finally:\n            # Reset for next set/delete\n            self._pending_prune_keys = None",
  "            yield\n        finally:\n            if self.is_pruning:\n                self._complete_pruning()\n            # Reset for next set/delete\n            self._pending_prune_keys = None", rule="ORD3")
V("c07-no-reset-on-exception", "C07", HX, "        finally:\n            # Reset for next set/delete\n            self._pending_prune_keys = None",
  "        except MissingTrieNode:\n            self._pending_prune_keys = None\n            raise\n        else:\n            self._pending_prune_keys = None", rule="ORD3")
V("c07-silent-swallow-equivalent", "C07", HX, "                except KeyError:\n                    # The old root node is missing from the database, but the only",
  "                except (KeyError,):\n                    # The old root node is missing from the database, but the only", expect="silent")
# --- C05 ----------------------------------------------------------------------------
V("c05-root-in-finally", "C05", HX, "            yield memory_trie\n", "            try:\n                yield memory_trie\n            finally:\n                self.root_hash = memory_trie.root_hash\n", rule="ORD5")
V("c05-batch-not-pruning", "C05", HX, "scratch_db, self.root_hash, prune=True, ref_count=batch_ref_count", "scratch_db, self.root_hash, prune=self.is_pruning, ref_count=batch_ref_count", rule="PROV8")
V("c05-do-deletes-const", "C05", HX, "batch_commit(do_deletes=self.is_pruning)", "batch_commit(do_deletes=False)", rule="PROV4")
V("c05-silent-copy-inline", "C05", HX, "            if self._ref_count is None:\n                batch_ref_count = None\n            else:\n                batch_ref_count = self._ref_count.copy()\n",
  "            batch_ref_count = None if self._ref_count is None else self._ref_count.copy()\n", expect="silent", props=["C05", "C06"])
# --- C17 ----------------------------------------------------------------------------
V("c17-commit-in-finally", "C17", DB, "        else:\n            for key, value in self.cache.items():\n                if value is not DELETED:\n                    self.wrapped_db[key] = value\n                elif do_deletes:\n                    self.wrapped_db.pop(key, None)\n                # if do_deletes is False, ignore deletes to underlying db\n        finally:\n            self.cache = {}",
  "        finally:\n            for key, value in self.cache.items():\n                if value is not DELETED:\n                    self.wrapped_db[key] = value\n                elif do_deletes:\n                    self.wrapped_db.pop(key, None)\n            self.cache = {}", rule="ORD4")
V("c17-swallow", "C17", DB, "        except Exception as exc:\n            raise exc\n", "        except Exception as exc:\n            pass\n", rule="ORD4")
V("c17-no-reset-on-exception", "C17", DB, "                # if do_deletes is False, ignore deletes to underlying db\n        finally:\n            self.cache = {}",
  "                # if do_deletes is False, ignore deletes to underlying db\n            self.cache = {}", rule="ORD4")
V("c17-delitem-hits-wrapped", "C17", DB, "    def __delitem__(self, key):\n        self.cache[key] = DELETED", "    def __delitem__(self, key):\n        self.cache[key] = DELETED\n        self.wrapped_db.pop(key, None)", rule="EFF1")
V("c17-getitem-deleted-raises", "C17", DB, "            if val is not DELETED:\n                return val\n            else:\n                return self.wrapped_db[key]",
  "            if val is not DELETED:\n                return val\n            else:\n                raise KeyError(key)", rule="ABS7")
V("c17-do-deletes-ignored", "C17", DB, "                elif do_deletes:\n                    self.wrapped_db.pop(key, None)", "                else:\n                    self.wrapped_db.pop(key, None)", rule="PROV12")
V("c17-contains-ignores-marker", "C17", DB, "        if key in self.cache and self.cache[key] is not DELETED:\n            return True", "        if key in self.cache:\n            return True", rule="ABS7")
V("c17-silent-equivalent-rewrite", "C17", DB, "        try:\n            yield\n        except Exception as exc:\n            raise exc\n        else:\n            for key, value in self.cache.items():\n                if value is not DELETED:\n                    self.wrapped_db[key] = value\n                elif do_deletes:\n                    self.wrapped_db.pop(key, None)\n                # if do_deletes is False, ignore deletes to underlying db\n        finally:\n            self.cache = {}",
  "        try:\n            yield\n        except BaseException:\n            self.cache = {}\n            raise\n        try:\n            for key, value in self.cache.items():\n                if value is not DELETED:\n                    self.wrapped_db[key] = value\n                elif do_deletes:\n                    self.wrapped_db.pop(key, None)\n        finally:\n            self.cache = {}", expect="silent", props=["C17", "C05", "C04"])
# --- C04 AL4 -----------------------------------------------------------------------
V("c04-at-root-prune-true", "C04", HX, "snapshot = type(self)(self.db, at_root_hash, prune=False)", "snapshot = type(self)(self.db, at_root_hash, prune=True)", rule="AL4")
V("c04-silent-at-root-prune-flag", "C04", HX, "snapshot = type(self)(self.db, at_root_hash, prune=False)", "snapshot = type(self)(self.db, at_root_hash, prune=self.is_pruning)", expect="silent")
V("c04-at-root-copy-db", "C04", HX, "snapshot = type(self)(self.db, at_root_hash, prune=False)", "snapshot = type(self)(dict(self.db), at_root_hash, prune=False)", rule="AL4")
# --- C06 ORD3 -----------------------------------------------------------------------
V("c06-set-not-decorated", "C06", HX, "    @prune_pending\n    def set(self, key, value):", "    def set(self, key, value):", rule="ORD3")

# --- C18 ------------------------------------------------------------------------------
V("c18-set-value-unvalidated", "C18", HX, "        validate_is_bytes(key)\n        validate_is_bytes(value)\n\n        trie_key = bytes_to_nibbles(key)\n\n        try:\n            root_node = self.get_node(self.root_hash)\n\n            if value",
  "        validate_is_bytes(key)\n\n        trie_key = bytes_to_nibbles(key)\n\n        try:\n            root_node = self.get_node(self.root_hash)\n\n            if value", rule="VAL1")
V("c18-bin-set-value-unvalidated", "C18", BN, "        validate_is_bytes(key)\n        validate_is_bytes(value)\n\n        self.root_hash = self._set(self.root_hash, encode_to_bin(key), value)",
  "        validate_is_bytes(key)\n\n        self.root_hash = self._set(self.root_hash, encode_to_bin(key), value)", rule="VAL1")
V("c18-hexary-init-root-unvalidated", "C18", HX, "        self.db = db\n        validate_is_bytes(root_hash)\n        self.root_hash = root_hash", "        self.db = db\n        self.root_hash = root_hash", rule="VAL1")
V("c18-get-proof-key-unvalidated", "C18", HX, "    def get_proof(self, key):\n        validate_is_bytes(key)\n", "    def get_proof(self, key):\n", rule="VAL1")
V("c18-smt-get-length-unvalidated", "C18", SM, "        validate_is_bytes(key)\n        validate_length(key, self._key_size)\n        branch = []", "        validate_is_bytes(key)\n        branch = []", rule="VAL2")
V("c18-calc-root-branch-length", "C18", SM, "    validate_is_bytes(value)\n    validate_length(branch, len(key) * 8)\n\n    path = to_int(key)", "    validate_is_bytes(value)\n\n    path = to_int(key)", rule="VAL2")
V("c18-from-db-root-length", "C18", SM, "        validate_length(root_hash, 32)  # Must be a bytes32 hash\n", "", rule="VAL2")
V("c18-keysize-zero", "C18", SM, "if not 1 <= key_size <= 32:", "if not 0 <= key_size <= 32:", rule="VAL3")
V("c18-silent-keysize-respelled", "C18", SM, "if not 1 <= key_size <= 32:", "if key_size < 1 or key_size > 32:", expect="silent")
V("c18-at-root-guard-removed", "C18", HX, "        if self.is_pruning:\n            raise ValidationError(\"Cannot use trie snapshot while pruning\")\n\n", "", rule="VAL3")
V("c18-validator-moved-below-sink", "C18", HX, "        validate_is_bytes(key)\n\n        trie_key = bytes_to_nibbles(key)\n        root_hash = self.root_hash", "        trie_key = bytes_to_nibbles(key)\n        validate_is_bytes(key)\n        root_hash = self.root_hash", rule="VAL1")
V("c18-silent-validator-in-helper", "C18", BN, "    def get(self, key):\n        \"\"\"\n        Fetches the value with a given keypath from the given node.\n\n        Key will be encoded into binary array format first.\n        \"\"\"\n        validate_is_bytes(key)\n\n        return self._get(self.root_hash, encode_to_bin(key))",
  "    def _checked(self, key):\n        validate_is_bytes(key)\n        return key\n\n    def get(self, key):\n        self._checked(key)\n\n        return self._get(self.root_hash, encode_to_bin(key))", expect="silent")
V("c18-proof-update-len-self-key", "C18", SM, "        validate_is_bytes(key)\n        validate_length(key, self._key_size)\n\n        # Path diff", "        validate_is_bytes(key)\n        validate_length(self.key, self._key_size)\n\n        # Path diff", rule="VAL2")
V("c18-nibbles-bypass", "C18", TY, "cls, (Nibble(maybe_nibble) for maybe_nibble in nibbles)", "cls, (maybe_nibble for maybe_nibble in nibbles)", rule="VAL4")
V("c18-traverse-no-nibbles", "C18", HX, "        trie_key = Nibbles(trie_key_input)\n\n        node, remaining_key = self._traverse(self.root_hash, trie_key)", "        trie_key = trie_key_input\n\n        node, remaining_key = self._traverse(self.root_hash, trie_key)", rule="VAL4")
V("c18-refcount-guard-gone", "C18", HX, "            else:\n                raise ValueError(\n                    \"Cannot pass an existing reference count in to a non-pruning trie\"\n                )", "            else:\n                self._ref_count = None", rule="VAL3")
V("c18-pending-reset-only-on-missing", "C18", HX, "        finally:\n            # Reset for next set/delete\n            self._pending_prune_keys = None",
  "        except MissingTrieNode:\n            self._pending_prune_keys = None\n            raise\n        else:\n            self._pending_prune_keys = None", expect="fire", rule="ORD3", props=["C07"])

# --- C10 ------------------------------------------------------------------------------
V("c10-suffix-ge", "C10", IT, "        if node.suffix > key:", "        if node.suffix >= key:", rule="REL1")
V("c10-skip-ge", "C10", IT, "            if key[: len(next_segment)] > next_segment:", "            if key[: len(next_segment)] >= next_segment:", rule="REL1")
V("c10-silent-skip-flipped", "C10", IT, "            if key[: len(next_segment)] > next_segment:", "            if next_segment < key[: len(next_segment)]:", expect="silent")
V("c10-silent-leaf-negated", "C10", IT, "        if node.suffix > key:\n            # This leaf node is to the right of the target key\n            return traversed + node.suffix\n        else:\n            # Nothing found in any sub-segments\n            return None",
  "        if not (node.suffix <= key):\n            return traversed + node.suffix\n        return None", expect="silent")
V("c10-last-segment", "C10", IT, "            next_segment = node.sub_segments[0]\n            next_node = self._trie.traverse_from(node, next_segment)\n            return self._get_next_key", "            next_segment = node.sub_segments[-1]\n            next_node = self._trie.traverse_from(node, next_segment)\n            return self._get_next_key", rule="ITER1")
V("c10-reversed-segments", "C10", IT, "        for next_segment in node.sub_segments:", "        for next_segment in reversed(node.sub_segments):", rule="ITER1")
V("c10-nearest-unknown", "C10", IT, "nearest_prefix = next_fog.nearest_right(())", "nearest_prefix = next_fog.nearest_unknown(())", rule="ITER1")
V("c10-descend-before-value", "C10", IT, "        if node.value:\n            # This is either a leaf node, or a branch node with a value.\n            # The value in a branch node comes before all the child values\n            return traversed + node.suffix\n        elif len(node.sub_segments) == 0:",
  "        if node.value and len(node.sub_segments) == 0:\n            return traversed + node.suffix\n        elif len(node.sub_segments) == 0:", rule="ITER1")
V("c10-values-leaf-only", "C10", IT, "        for _, node in self.nodes():\n            if node.value:\n                yield node.value", "        for _, node in self.nodes():\n            if node.value and not node.sub_segments:\n                yield node.value", rule="SIB3")
V("c10-key-without-suffix", "C10", IT, "                full_key = prefix + node.suffix\n", "                full_key = prefix\n", rule="SIB3")
V("c10-cache-wrong-segment", "C10", FG, "            self._cache[new_prefix] = (trie_node, Nibbles(segment))", "            self._cache[new_prefix] = (trie_node, Nibbles(sub_segments[0]))", rule="PROV5")
V("c10-traversed-not-extended", "C10", IT, "                    return self._get_next_key(next_node, traversed + next_segment)", "                    return self._get_next_key(next_node, traversed)", rule="ABS4")
# --- C11 ------------------------------------------------------------------------------
V("c11-explore-no-copy", "C11", FG, "        new_fog_prefixes = self._unexplored_prefixes.copy()", "        new_fog_prefixes = self._unexplored_prefixes", rule="AL1")
V("c11-mark-no-copy", "C11", FG, "        new_unexplored_prefixes = self._unexplored_prefixes.copy()", "        new_unexplored_prefixes = self._unexplored_prefixes", rule="AL1")
V("c11-mark-inplace-sub", "C11", FG, "        new_unexplored_prefixes = self._unexplored_prefixes.copy()\n        for prefix in map(Nibbles, prefix_inputs):", "        new_unexplored_prefixes = self._unexplored_prefixes\n        for prefix in map(Nibbles, prefix_inputs):\n            new_unexplored_prefixes -= {prefix}", rule="AL1")
V("c11-nearest-right-returns-key", "C11", FG, "            if key_starts_with(key, nearest_left):\n                return nearest_left", "            if key_starts_with(key, nearest_left):\n                return key", rule="PROV1")
V("c11-perfect-vis-at-end", "C11", FG, "        elif index == len(self._unexplored_prefixes):\n            return self._unexplored_prefixes[-1]", "        elif index == len(self._unexplored_prefixes):\n            raise PerfectVisibility(\"nothing to the right\")", rule="EXC7")
V("c11-update-filtered", "C11", FG, "new_fog_prefixes.update([old_prefix + segment for segment in sub_segments])", "new_fog_prefixes.update([old_prefix + segment for segment in sub_segments if segment])", rule="PROV6")
V("c11-prefix-literal-differs", "C11", FG, "        serial_prefix = b\"HexaryTrieFog:\"", "        serial_prefix = b\"HexaryTrieFog=\"", rule="SIB10")
V("c11-nested-only-shortest", "C11", FG, "                shorter_lengths = [\n                    length for length in all_lengths if length < len(segment)\n                ]", "                shorter_lengths = [min(all_lengths)] if min(all_lengths) < len(segment) else []", rule="PROV6")
V("c11-silent-copy-via-sortedset", "C11", FG, "        new_fog_prefixes = self._unexplored_prefixes.copy()", "        new_fog_prefixes = SortedSet(self._unexplored_prefixes)", expect="silent")
V("c11-is-complete-wrong", "C11", FG, "        return len(self._unexplored_prefixes) == 0", "        return len(self._unexplored_prefixes) <= 1", rule="PROV1")

# --- C12 / C13 binary ---------------------------------------------------------------------
V("c12-new-tail-offset", "C12", BN, "                        keypath[common_prefix_len + 1 :],\n                        self._hash_and_save(encode_leaf_node(value)),", "                        keypath[common_prefix_len:],\n                        self._hash_and_save(encode_leaf_node(value)),", rule="ABS4b")
V("c12-get-bits-swapped", "C12", BN, "            if keypath[:1] == BYTE_0:\n                return self._get(left_child, keypath[1:])\n            else:\n                return self._get(right_child, keypath[1:])",
  "            if keypath[:1] == BYTE_0:\n                return self._get(right_child, keypath[1:])\n            else:\n                return self._get(left_child, keypath[1:])", rule="SIB4")
V("c12-get-kv-no-prefix-test", "C12", BN, "            if keypath[: len(left_child)] == left_child:\n                return self._get(right_child, keypath[len(left_child) :])\n            else:\n                return None",
  "            return self._get(right_child, keypath[len(left_child) :])", rule="SIB4")
V("c12-get-leaf-ignores-rest", "C12", BN, "        if nodetype == LEAF_TYPE:\n            if keypath:\n                return None\n            return right_child", "        if nodetype == LEAF_TYPE:\n            return right_child", rule="SIB4")
V("c12-get-missing-arm", "C12", BN, "        # Branch node descend\n        elif nodetype == BRANCH_TYPE:\n            # Keypath too short\n            if not keypath:\n                return None\n            if keypath[:1] == BYTE_0:",
  "        # Branch node descend\n        elif nodetype == BRANCH_TYPE and keypath:\n            if keypath[:1] == BYTE_0:", expect="silent")
V("c12-delete-not-blank", "C12", BN, "self.root_hash = self._set(self.root_hash, encode_to_bin(key), b\"\")", "self.root_hash = self._set(self.root_hash, encode_to_bin(key), None)", rule="ROUTE2")
V("c12-delete-subtrie-flag-lost", "C12", BN, "            value=b\"\",\n            if_delete_subtrie=True,", "            value=b\"\",\n            if_delete_subtrie=False,", rule="ROUTE2")
V("c12-exists-truthy", "C12", BN, "        return self.get(key) is not None", "        return bool(self.get(key))", rule="SIB1")
V("c12-silent-delete-subtrie-le", "C12", BN, "            if len(keypath) < len(left_child) and keypath == left_child[: len(keypath)]:", "            if len(keypath) <= len(left_child) and keypath == left_child[: len(keypath)]:", expect="silent")
V("c12-compress-kv-dropped", "C12", BN, "            if subnodetype == KV_TYPE:\n                return self._hash_and_save(\n                    encode_kv_node(left_child + sub_left_child, sub_right_child)\n                )\n            else:\n                return self._hash_and_save(encode_kv_node(left_child, subnode_hash))",
  "            return self._hash_and_save(encode_kv_node(left_child, subnode_hash))", rule="TS7")
V("c13-branch-descend-on-mismatch", "C13", BR, "        if keypath[: len(left_child)] == left_child:\n            yield node\n            yield from _get_branch(db, right_child, keypath[len(left_child) :])\n        else:\n            yield node",
  "        if keypath[: len(left_child)] != left_child:\n            yield node\n            yield from _get_branch(db, right_child, keypath[len(left_child) :])\n        else:\n            yield node", rule="SIB4")
V("c13-branch-yield-dropped", "C13", BR, "        if keypath[:1] == BYTE_0:\n            yield node\n            yield from _get_branch(db, left_child, keypath[1:])", "        if keypath[:1] == BYTE_0:\n            yield from _get_branch(db, left_child, keypath[1:])", rule="TS6")
V("c13-witness-other-child", "C13", BR, "        if keypath[:1] == BYTE_0:\n            yield node\n            yield from _get_witness_for_key_prefix(db, left_child, keypath[1:])", "        if keypath[:1] == BYTE_0:\n            yield node\n            yield from _get_witness_for_key_prefix(db, right_child, keypath[1:])", rule="SIB4")
V("c13-exist-leaf-prefix-true", "C13", BR, "    if nodetype == LEAF_TYPE:\n        if key_prefix:\n            return False\n        return True", "    if nodetype == LEAF_TYPE:\n        return True", rule="SIB4")
V("c13-silent-branch-yield-hoisted", "C13", BR, "        if keypath[:1] == BYTE_0:\n            yield node\n            yield from _get_branch(db, left_child, keypath[1:])\n        else:\n            yield node\n            yield from _get_branch(db, right_child, keypath[1:])",
  "        yield node\n        if keypath[:1] == BYTE_0:\n            yield from _get_branch(db, left_child, keypath[1:])\n        else:\n            yield from _get_branch(db, right_child, keypath[1:])", expect="silent")
V("c13-trie-nodes-skip-left", "C13", BR, "        yield node\n        yield from get_trie_nodes(db, left_child)\n        yield from get_trie_nodes(db, right_child)", "        yield node\n        yield from get_trie_nodes(db, right_child)", rule="SIB4")
V("c12-collapse-bit-inverted", "C12", BN, "first_bit = BYTE_1 if new_right_child != BLANK_HASH else BYTE_0", "first_bit = BYTE_0 if new_right_child != BLANK_HASH else BYTE_1", rule="ABS4b")
V("c12-silent-collapse-bit-by-left", "C12", BN, "first_bit = BYTE_1 if new_right_child != BLANK_HASH else BYTE_0", "first_bit = BYTE_1 if new_left_child == BLANK_HASH else BYTE_0", expect="silent")
V("c12-branch-order-swapped", "C12", BN, "                newsub = self._hash_and_save(encode_branch_node(oldnode, valnode))\n            else:\n                newsub = self._hash_and_save(encode_branch_node(valnode, oldnode))", "                newsub = self._hash_and_save(encode_branch_node(valnode, oldnode))\n            else:\n                newsub = self._hash_and_save(encode_branch_node(oldnode, valnode))", rule="ABS4b")
V("c12-kept-head-off", "C12", BN, "encode_kv_node(left_child[:common_prefix_len], newsub)", "encode_kv_node(left_child[: common_prefix_len + 1], newsub)", rule="ABS4b")

# --- C02 ------------------------------------------------------------------------------------
V("c02-embed-le-32", "C02", HX, "        if len(encoded_node) < 32:\n            return node, None", "        if len(encoded_node) <= 32:\n            return node, None", rule="SIB9")
V("c02-silent-embed-flipped", "C02", HX, "        if len(encoded_node) < 32:\n            return node, None", "        if 32 > len(encoded_node):\n            return node, None", expect="silent")
V("c02-silent-embed-le-31", "C02", HX, "        if len(encoded_node) < 32:\n            return node, None", "        if len(encoded_node) <= 31:\n            return node, None", expect="silent")
V("c02-reader-threshold", "C02", HX, "        if len(node_hash) < 32:\n            encoded_node = node_hash", "        if len(node_hash) < 33:\n            encoded_node = node_hash", rule="SIB9")
V("c02-hp-flag-on-even", "C02", NB, "                (flag + 1,),\n                raw_nibbles,", "                (flag,),\n                raw_nibbles,", rule="SIB6")
V("c02-delete-branch-no-normalise", "C02", HX, "        node[trie_key[0]] = encoded_sub_node\n        if encoded_sub_node == BLANK_NODE:\n            return self._normalize_branch_node(node)\n\n        return node",
  "        node[trie_key[0]] = encoded_sub_node\n\n        return node", rule="TS3")
V("c02-silent-normalise-always", "C02", HX, "        node[trie_key[0]] = encoded_sub_node\n        if encoded_sub_node == BLANK_NODE:\n            return self._normalize_branch_node(node)\n\n        return node",
  "        node[trie_key[0]] = encoded_sub_node\n        return self._normalize_branch_node(node)", expect="silent", props=["C02", "C07", "C06"])
V("c02-empty-extension", "C02", HX, "            if len(current_key_remainder) == 1 and is_extension:\n                new_node[current_key_remainder[0]] = node[1]\n            else:", "            if False:\n                pass\n            else:", rule="TS4")
V("c02-branch-15", "C02", HX, "                new_node = [BLANK_NODE] * 16 + [node[1]]", "                new_node = [BLANK_NODE] * 15 + [node[1]]", rule="SIB11")
V("c02-root-not-stored-when-short", "C02", HX, "        if value is None:\n            # Some nodes are so small that they are not encoded during\n            # _node_to_db_mapping, so we manually encode and hash it here:\n            encoded_node = encode_raw(key)\n            node_hash = keccak(encoded_node)\n        else:",
  "        if value is None:\n            return keccak(encode_raw(key))\n        else:", rule="ABS6")
# --- C03 ------------------------------------------------------------------------------------
V("c03-branch-hit-drops-node", "C03", HX, "            if not unproven_key:\n                return updated_proof", "            if not unproven_key:\n                return last_proof", rule="TS5")
V("c03-recursion-loses-node", "C03", HX, "            return self._get_proof(next_node, trie_key, new_proven_len, updated_proof)", "            return self._get_proof(next_node, trie_key, new_proven_len, last_proof)", rule="TS5")
V("c03-proven-len-off", "C03", HX, "                new_proven_len = proven_len + len(current_key)\n", "                new_proven_len = proven_len + len(current_key) - 1\n", rule="TS5")
V("c03-verifier-db-prefilled", "C03", HX, "        trie = cls({})\n", "        trie = cls({root_hash: b''})\n", rule="EFF3")
V("c03-silent-rename", "C03", HX, "        updated_proof = last_proof + (node,)\n        unproven_key = trie_key[proven_len:]", "        updated_proof = last_proof + (node,)\n        rest = trie_key[proven_len:]\n        unproven_key = rest", expect="silent")
# --- C06 ------------------------------------------------------------------------------------
V("c06-prune-merge-dropped", "C06", HX, "        if new_sub_node_type in {NODE_TYPE_LEAF, NODE_TYPE_EXTENSION}:\n            self._prune_node(new_sub_node)\n", "        if new_sub_node_type in {NODE_TYPE_LEAF, NODE_TYPE_EXTENSION}:\n", rule="TS2")
V("c06-prune-normalise-dropped", "C06", HX, "        if sub_node_type in {NODE_TYPE_LEAF, NODE_TYPE_EXTENSION}:\n            self._prune_node(sub_node)\n", "        if sub_node_type in {NODE_TYPE_LEAF, NODE_TYPE_EXTENSION}:\n", rule="TS2")
V("c06-prune-visited-dropped", "C06", HX, "        node_type = get_node_type(node)\n\n        self._prune_node(node)\n\n        if node_type == NODE_TYPE_BLANK:\n            # ignore attempt", "        node_type = get_node_type(node)\n\n        if node_type == NODE_TYPE_BLANK:\n            # ignore attempt", rule="TS1")
V("c06-silent-prune-after-blank-arm", "C06", HX, "        node_type = get_node_type(node)\n\n        self._prune_node(node)\n\n        if node_type == NODE_TYPE_BLANK:\n            # ignore attempt to delete key from empty node\n            return BLANK_NODE\n        elif node_type in {NODE_TYPE_LEAF, NODE_TYPE_EXTENSION}:\n            return self._delete_kv_node(node, trie_key)",
  "        node_type = get_node_type(node)\n\n        if node_type == NODE_TYPE_BLANK:\n            # ignore attempt to delete key from empty node\n            return BLANK_NODE\n        self._prune_node(node)\n        if node_type in {NODE_TYPE_LEAF, NODE_TYPE_EXTENSION}:\n            return self._delete_kv_node(node, trie_key)", expect="silent")
V("c06-count-elsewhere", "C06", HX, "        if value is not None:\n            self._set_db_value(key, value)\n        return key", "        if value is not None:\n            self._set_db_value(key, value)\n            if self.is_pruning:\n                self._ref_count[key] += 1\n        return key", rule="EFF1")
V("c06-complete-pruning-on-failure", "C06", HX, "            yield\n            if self.is_pruning:\n                self._complete_pruning()\n        finally:", "            yield\n        finally:\n            if self.is_pruning:\n                self._complete_pruning()", rule="ORD3")
# --- C07 ORD2 / READPATH ------------------------------------------------------------------
V("c07-persist-before-read", "C07", HX, "            sub_node = self.get_node(node[trie_key[0]])\n\n            new_node = self._set(sub_node, trie_key[1:], value)\n            node[trie_key[0]] = self._persist_node(new_node)",
  "            marker = self._persist_node([compute_leaf_key(trie_key[1:]), value])\n            sub_node = self.get_node(node[trie_key[0]])\n\n            new_node = self._set(sub_node, trie_key[1:], value)\n            node[trie_key[0]] = self._persist_node(new_node)", rule="ORD2")
# --- C08 ------------------------------------------------------------------------------------
V("c08-range-15", "C08", ND, "Nibbles((nibble,)) for nibble in range(16) if bool(node_body[nibble])", "Nibbles((nibble,)) for nibble in range(15) if bool(node_body[nibble])", rule="ANN")
V("c08-value-wrong-slot", "C08", ND, "            sub_segments=sub_segments,\n            value=bytes(node_body[-1]),", "            sub_segments=sub_segments,\n            value=bytes(node_body[0]),", rule="ANN")
V("c08-trim-off-by-one", "C08", EX, "                trimmed_suffix = Nibbles(actual_node.suffix[len(key_tail) :])", "                trimmed_suffix = Nibbles(actual_node.suffix[len(key_tail) - 1 :])", rule="PROV7")
V("c08-traverse-from-no-raise", "C08", HX, "        node, remaining_key = self._traverse_from(parent_node.raw, trie_key)\n\n        annotated_node = annotate_node(node)\n\n        if remaining_key:\n            path_to_node = trie_key[: len(trie_key) - len(remaining_key)]\n            raise TraversedPartialPath(path_to_node, annotated_node, remaining_key)\n        else:\n            return annotated_node",
  "        node, remaining_key = self._traverse_from(parent_node.raw, trie_key)\n\n        annotated_node = annotate_node(node)\n\n        return annotated_node", rule="SIB2")
V("c08-second-read-per-hop", "C08", HX, "            try:\n                node = self.get_node(next_node_pointer)\n            except KeyError as exc:", "            try:\n                node = self.get_node(next_node_pointer)\n                node = self.get_node(next_node_pointer)\n            except KeyError as exc:", rule="ABS5")
V("c08-path-to-node-wrong", "C08", HX, "        node, remaining_key = self._traverse(self.root_hash, trie_key)\n\n        annotated_node = annotate_node(node)\n\n        if remaining_key:\n            path_to_node = trie_key[: len(trie_key) - len(remaining_key)]",
  "        node, remaining_key = self._traverse(self.root_hash, trie_key)\n\n        annotated_node = annotate_node(node)\n\n        if remaining_key:\n            path_to_node = trie_key[: len(remaining_key)]", rule="SIB2")
V("c08-branch-same-key-below", "C08", HX, "                next_node_pointer = node[remaining_key[0]]\n                remaining_key = remaining_key[1:]", "                next_node_pointer = node[remaining_key[0]]\n                remaining_key = remaining_key", rule="ABS1")
V("c08-silent-negative-index", "C08", ND, "            sub_segments=(),\n            value=bytes(node_body[-1]),\n            suffix=Nibbles(extract_key(node_body)),", "            sub_segments=(),\n            value=bytes(node_body[1]),\n            suffix=Nibbles(extract_key(node_body)),", expect="silent")
# --- C01 ------------------------------------------------------------------------------------
V("c01-empty-value-not-routed", "C01", HX, "            if value == b\"\":\n                new_node = self._delete(root_node, trie_key)\n            else:\n                new_node = self._set(root_node, trie_key, value)", "            new_node = self._set(root_node, trie_key, value)", rule="ROUTE1")
V("c01-silent-empty-value-not", "C01", HX, "            if value == b\"\":\n                new_node = self._delete(root_node, trie_key)\n            else:\n                new_node = self._set(root_node, trie_key, value)", "            if not value:\n                new_node = self._delete(root_node, trie_key)\n            else:\n                new_node = self._set(root_node, trie_key, value)", expect="silent")
V("c01-contains-is-not-none", "C01", HX, "    def __contains__(self, key):\n        return self.exists(key)", "    def __contains__(self, key):\n        return self.get(key) is not None", rule="SIB1")
V("c01-leaf-value-without-test", "C01", HX, "            if remaining_key == extract_key(node):\n                return node[1]\n            else:", "            if True:\n                return node[1]\n            else:", rule="ABS3")
V("c01-branch-wrong-slot", "C01", HX, "            else:\n                return node[-1]\n        else:\n            raise Exception(\"Invariant: This shouldn't ever happen\")\n\n    def traverse", "            else:\n                return node[1]\n        else:\n            raise Exception(\"Invariant: This shouldn't ever happen\")\n\n    def traverse", rule="ABS3")
# --- C14 / C15 -----------------------------------------------------------------------------
V("c14-delete-writes-blank", "C14", SM, "        return self.set(key, self._default)", "        return self.set(key, b\"\")", rule="PROV2")
V("c14-sibling-order-in-set", "C14", SM, "            if path & target_bit:\n                node = sibling_node + node_hash\n            else:\n                node = node_hash + sibling_node", "            if path & target_bit:\n                node = node_hash + sibling_node\n            else:\n                node = sibling_node + node_hash", rule="SIB5")
V("c14-bit-direction-in-get", "C14", SM, "        target_bit = 1 << (self.depth - 1)\n        path = to_int(key)", "        target_bit = 1\n        path = to_int(key)", rule="SIB5")
V("c14-unreversed", "C14", SM, "        return tuple(reversed(proof_update))", "        return tuple(proof_update)", rule="PROV10")
V("c14-branch-skips-blank-test", "C14", SM, "        value, branch = self._get(key)\n\n        # Ensure that it isn't blank!\n        if value == BLANK_NODE:\n            raise KeyError(\"Key does not exist\")\n\n        return branch", "        value, branch = self._get(key)\n\n        return branch", rule="SIB12")
V("c15-guard-lt", "C15", SM, "            if len(node_updates) <= branch_point:", "            if len(node_updates) < branch_point:", rule="REL2")
V("c15-silent-guard-flipped", "C15", SM, "            if len(node_updates) <= branch_point:", "            if branch_point >= len(node_updates):", expect="silent")
V("c15-store-before-check", "C15", SM, "            if len(node_updates) <= branch_point:\n                raise ValidationError(\"Updated node list is not deep enough\")\n\n            # Update sibling node in the branch where our key differs from the update\n            self._branch[branch_point] = node_updates[branch_point]",
  "            self._branch[branch_point] = node_updates[min(branch_point, len(node_updates) - 1)]\n            if len(node_updates) <= branch_point:\n                raise ValidationError(\"Updated node list is not deep enough\")", rule="ORD6")
V("c15-wrong-index", "C15", SM, "            self._branch[branch_point] = node_updates[branch_point]", "            self._branch[branch_point] = node_updates[-1]", rule="EFF5")
V("c15-value-on-other-key", "C15", SM, "            self._branch[branch_point] = node_updates[branch_point]\n", "            self._branch[branch_point] = node_updates[branch_point]\n            self._value = value\n", rule="EFF5")
V("c15-branch-aliased", "C15", SM, "        self._branch = list(branch)  # Avoid issues with mutable lists", "        self._branch = branch", rule="AL3")
# --- C16 ------------------------------------------------------------------------------------
V("c16-needs-terminator-only-2", "C16", NB, "    needs_terminator = flag in {HP_FLAG_2, HP_FLAG_2 + 1}", "    needs_terminator = flag in {HP_FLAG_2}", rule="SIB6")
V("c16-silent-needs-terminator-ge", "C16", NB, "    needs_terminator = flag in {HP_FLAG_2, HP_FLAG_2 + 1}", "    needs_terminator = flag >= HP_FLAG_2", expect="silent")
V("c16-skip-one-on-even", "C16", NB, "        raw_nibbles = nibbles_with_flag[2:]", "        raw_nibbles = nibbles_with_flag[1:]", rule="SIB6")
V("c16-kv-guard-lt-33", "C16", ND, "        if len(node) <= 33:", "        if len(node) < 33:", rule="EXC6")
V("c16-branch-prefix-2", "C16", "trie/constants.py", "BRANCH_TYPE_PREFIX = bytes([1])", "BRANCH_TYPE_PREFIX = bytes([2])", rule="SIB7")
V("c16-reverse-table-not-inverse", "C16", NB, "REVERSE_NIBBLES_LOOKUP = {value: key for key, value in NIBBLES_LOOKUPS.items()}", "REVERSE_NIBBLES_LOOKUP = {value: key for key, value in NIBBLES_LOOKUPS.items() if key}", rule="PROV9")
V("c16-leaf-key-no-terminator", "C16", ND, "    return encode_nibbles(add_nibbles_terminator(nibbles))", "    return encode_nibbles(nibbles)", rule="SIB8")

# --- helper semantics / conservation / short root ----------------------------------------------
V("help-ccp-offsets-differ", "C01", ND, "    right_remainder = right_key[common_prefix_length:]", "    right_remainder = right_key[common_prefix_length + 1 :]", rule="HELP")
V("help-key-starts-with-no-length", "C08", ND, "    if len(full_key) < len(partial_key):\n        return False\n    else:\n        return all(left == right for left, right in zip(full_key, partial_key))", "    return all(left == right for left, right in zip(full_key, partial_key))", expect="inconclusive")
V("c01-branch-residual-not-cut", "C01", HX, "            new_node = self._set(sub_node, trie_key[1:], value)", "            new_node = self._set(sub_node, trie_key, value)", rule="ABS4h")
V("c01-delete-residual-off", "C01", HX, "        sub_node_key = trie_key[len(current_key) :]", "        sub_node_key = trie_key[len(current_key) - 1 :]", rule="ABS4h")
V("c01-new-leaf-slot-mismatch", "C01", HX, "                subnode_position = trie_key_remainder[0]\n                subnode_key = compute_leaf_key(trie_key_remainder[1:])", "                subnode_position = trie_key_remainder[0]\n                subnode_key = compute_leaf_key(trie_key_remainder)", rule="ABS4h")
V("c01-leaf-removed-on-prefix", "C01", HX, "            if trie_key == current_key:\n                return BLANK_NODE", "            if key_starts_with(current_key, trie_key):\n                return BLANK_NODE", rule="ABS4h")
V("c06-short-root-always-pruned", "C06", HX, "                    if node_body is None and old_root_hash in self.db:", "                    if old_root_hash in self.db:", rule="PENDG2")
V("c06-double-schedule", "C06", HX, "        if node_type == NODE_TYPE_LEAF:\n            if trie_key == current_key:\n                return BLANK_NODE", "        if node_type == NODE_TYPE_LEAF:\n            if trie_key == current_key:\n                self._prune_node(node)\n                return BLANK_NODE", rule="TS1")

# --- behaviour-preserving refactorings: every affected check must stay silent ----------------------
ALLP = ["C01", "C02", "C03", "C04", "C05", "C06", "C07", "C08", "C10", "C11", "C12", "C13", "C14", "C15", "C16", "C17", "C18"]
V("eq-proof-len-commuted", "C03", HX, "                new_proven_len = proven_len + len(current_key)\n", "                new_proven_len = len(current_key) + proven_len\n", expect="silent")
V("eq-proof-branch-len-commuted", "C03", HX, "            new_proven_len = proven_len + 1\n", "            new_proven_len = 1 + proven_len\n", expect="silent")
V("eq-smt-bit-test-explicit", "C14", SM, "            if path & target_bit:\n                branch.append(left)", "            if path & target_bit != 0:\n                branch.append(left)", expect="silent", props=["C14", "C15"])
V("eq-smt-bit-test-commuted", "C14", SM, "            if path & target_bit:\n                node = sibling_node + node_hash", "            if target_bit & path:\n                node = sibling_node + node_hash", expect="silent", props=["C14", "C15"])
V("eq-proof-bit-test-ne", "C15", SM, "                if path_diff & (1 << bit) > 0:", "                if path_diff & (1 << bit) != 0:", expect="silent")
V("eq-get-local-renamed", "C01", HX, "        node, remaining_key = self._traverse(root_hash, trie_key)\n\n        node_type = get_node_type(node)\n\n        if node_type == NODE_TYPE_BLANK:\n            return BLANK_NODE\n        elif node_type == NODE_TYPE_LEAF:\n            if remaining_key == extract_key(node):\n                return node[1]",
  "        found, rest = self._traverse(root_hash, trie_key)\n        node, remaining_key = found, rest\n\n        node_type = get_node_type(node)\n\n        if node_type == NODE_TYPE_BLANK:\n            return BLANK_NODE\n        elif node_type == NODE_TYPE_LEAF:\n            if extract_key(node) == remaining_key:\n                return node[-1]", expect="silent", props=["C01", "C03", "C07"])
V("eq-traverse-used-key-inline", "C07", HX, "                used_key = trie_key[: len(trie_key) - len(remaining_key)]\n\n                raise MissingTraversalNode(exc.args[0], used_key)", "                raise MissingTraversalNode(\n                    exc.args[0], trie_key[: len(trie_key) - len(remaining_key)]\n                )", expect="silent", props=["C07", "C08", "C01"])
V("eq-set-db-value-guard-first", "C06", HX, "        self.db[key] = value\n        if self.is_pruning:\n            self._ref_count[key] += 1", "        if self.is_pruning:\n            self._ref_count[key] += 1\n        self.db[key] = value", expect="silent", props=["C06", "C04", "C01", "C05"])
V("eq-exists-not-eq", "C01", HX, "        return self.get(key) != BLANK_NODE", "        return not (self.get(key) == BLANK_NODE)", expect="silent")
V("eq-fog-is-complete-not", "C11", FG, "        return len(self._unexplored_prefixes) == 0", "        return not self._unexplored_prefixes", expect="silent")
V("eq-binary-get-elif-to-if", "C12", BN, "            return right_child\n        elif nodetype == KV_TYPE:\n            # Keypath too short\n            if not keypath:\n                return None\n            if keypath[: len(left_child)] == left_child:", "            return right_child\n        if nodetype == KV_TYPE:\n            # Keypath too short\n            if not keypath:\n                return None\n            if keypath[: len(left_child)] == left_child:", expect="silent", props=["C12", "C13"])
V("eq-binary-len-zero", "C12", BN, "            # Keypath too short\n            if not keypath:\n                return None\n            if keypath[: len(left_child)] == left_child:", "            # Keypath too short\n            if len(keypath) == 0:\n                return None\n            if keypath[: len(left_child)] == left_child:", expect="silent", props=["C12", "C13"])
V("eq-scratch-getitem-flat", "C17", DB, "        if key in self.cache:\n            val = self.cache[key]\n            if val is not DELETED:\n                return val\n            else:\n                return self.wrapped_db[key]\n        else:\n            return self.wrapped_db[key]",
  "        if key in self.cache and self.cache[key] is not DELETED:\n            return self.cache[key]\n        return self.wrapped_db[key]", expect="silent", props=["C17", "C05", "C06", "C04"])
V("eq-validate-order-swapped", "C18", HX, "        validate_is_bytes(key)\n        validate_is_bytes(value)\n\n        trie_key = bytes_to_nibbles(key)\n\n        try:\n            root_node = self.get_node(self.root_hash)\n\n            if value", "        validate_is_bytes(value)\n        validate_is_bytes(key)\n\n        trie_key = bytes_to_nibbles(key)\n\n        try:\n            root_node = self.get_node(self.root_hash)\n\n            if value", expect="silent", props=["C18", "C01", "C07"])
V("eq-parse-node-type-local", "C16", ND, "    if node is None or node == b\"\":\n        raise InvalidNode(\"Blank node is not a valid node type in Binary Trie\")\n    elif node[0] == BRANCH_TYPE:", "    if node is None or node == b\"\":\n        raise InvalidNode(\"Blank node is not a valid node type in Binary Trie\")\n    node_type = node[0]\n    if node_type == BRANCH_TYPE:", expect="silent", props=["C16", "C12", "C13"])
V("eq-iter-message-and-comment", "C10", IT, "                # This segment is to the left of the key, keep looking...\n                continue", "                # nothing here\n                continue", expect="silent")
V("eq-smt-delete-local", "C14", SM, "        return self.set(key, self._default)", "        updates = self.set(key, self._default)\n        return updates", expect="silent", props=["C14", "C15"])
V("eq-hexary-new-public-method", "C18", HX, "    def exists(self, key):\n        validate_is_bytes(key)\n", "    def has_key(self, key):\n        validate_is_bytes(key)\n        return self.exists(key)\n\n    def exists(self, key):\n        validate_is_bytes(key)\n", expect="silent", props=ALLP)

# --- C16 bit packing --------------------------------------------------------------------------
BI = "trie/utils/binaries.py"
V("c16-keypath-pad-mod8", "C16", BI, "    padded_bin = bytes((4 - len(input_bin)) % 4) + input_bin", "    padded_bin = bytes((4 - len(input_bin)) % 8) + input_bin", rule="SIB7b")
V("c16-keypath-reader-skip", "C16", BI, "    return path[4 + ((4 - padded_len) % 4) :]", "    return path[4 + padded_len :]", rule="SIB7b")
V("c16-keypath-flag-drop-2", "C16", BI, "    if path[0] == 1:\n        path = path[4:]", "    if path[0] == 1:\n        path = path[2:]", rule="SIB7b")
V("c16-exp-lsb-first", "C16", "trie/constants.py", "EXP = tuple(reversed(tuple(2**i for i in range(8))))", "EXP = tuple(2**i for i in range(8))", rule="SIB7b")
V("c16-keypath-prefix-swapped", "C16", BI, "    if len(padded_bin) % 8 == 4:\n        return decode_from_bin(PREFIX_00 + prefix + padded_bin)\n    else:\n        return decode_from_bin(PREFIX_100000 + prefix + padded_bin)", "    if len(padded_bin) % 8 == 4:\n        return decode_from_bin(PREFIX_100000 + prefix + padded_bin)\n    else:\n        return decode_from_bin(PREFIX_00 + prefix + padded_bin)", rule="SIB7b")
V("c16-silent-keypath-local", "C16", BI, "    return path[4 + ((4 - padded_len) % 4) :]", "    skip = 4 + ((4 - padded_len) % 4)\n    return path[skip:]", expect="silent")

V("c17-reset-only-for-exception", "C17", DB, "        try:\n            yield\n        except Exception as exc:\n            raise exc\n        else:\n            for key, value in self.cache.items():\n                if value is not DELETED:\n                    self.wrapped_db[key] = value\n                elif do_deletes:\n                    self.wrapped_db.pop(key, None)\n                # if do_deletes is False, ignore deletes to underlying db\n        finally:\n            self.cache = {}",
  "        try:\n            yield\n        except Exception:\n            self.cache = {}\n            raise\n        try:\n            for key, value in self.cache.items():\n                if value is not DELETED:\n                    self.wrapped_db[key] = value\n                elif do_deletes:\n                    self.wrapped_db.pop(key, None)\n        finally:\n            self.cache = {}", rule="ORD4")
V("eq-proof-guard-plus-one", "C15", SM, "            if len(node_updates) <= branch_point:", "            if len(node_updates) < branch_point + 1:", expect="silent")
V("eq-proof-bit-length", "C15", SM, "            for bit in reversed(range(self._branch_size)):\n                if path_diff & (1 << bit) > 0:\n                    branch_point = (self._branch_size - 1) - bit\n                    break\n", "            branch_point = self._branch_size - path_diff.bit_length()\n", expect="silent")
V("c15-index-from-end", "C15", SM, "            self._branch[branch_point] = node_updates[branch_point]", "            self._branch[branch_point] = node_updates[branch_point - self._branch_size]", rule="EFF5")

# --- extract-helper refactorings (new single-return helpers are inlined by the symbolic layer) -------------
V("eq-extract-load-root", "C01", HX, "    def exists(self, key):\n        validate_is_bytes(key)\n", "    def _load_root(self):\n        return self.get_node(self.root_hash)\n\n    def exists(self, key):\n        validate_is_bytes(key)\n", expect="silent", props=ALLP,
  edits=[(HX, "    def exists(self, key):\n        validate_is_bytes(key)\n", "    def _load_root(self):\n        return self.get_node(self.root_hash)\n\n    def exists(self, key):\n        validate_is_bytes(key)\n"),
         (HX, "            root_node = self.get_node(self.root_hash)\n\n            if value == b\"\":", "            root_node = self._load_root()\n\n            if value == b\"\":")])
V("eq-extract-consumed-prefix", "C07", HX, "    def _raise_missing_node(self, exception, key):", "    def _raise_missing_node(self, exception, key):", expect="silent", props=["C07", "C08", "C01"],
  edits=[(HX, "    def _traverse_extension(self, node, trie_key):", "    @staticmethod\n    def _consumed(whole, rest):\n        return whole[: len(whole) - len(rest)]\n\n    def _traverse_extension(self, node, trie_key):"),
         (HX, "                used_key = trie_key[: len(trie_key) - len(remaining_key)]\n\n                raise MissingTraversalNode", "                used_key = self._consumed(trie_key, remaining_key)\n\n                raise MissingTraversalNode")])
V("eq-extract-bit-helper", "C14", SM, "def calc_root(key: bytes, value: bytes, branch: Sequence[Hash32]) -> Hash32:", "def calc_root(key: bytes, value: bytes, branch: Sequence[Hash32]) -> Hash32:", expect="silent", props=["C14", "C15"],
  edits=[(SM, "def calc_root(key: bytes, value: bytes, branch: Sequence[Hash32]) -> Hash32:", "def _is_right(path, target_bit):\n    return path & target_bit\n\n\ndef calc_root(key: bytes, value: bytes, branch: Sequence[Hash32]) -> Hash32:"),
         (SM, "        if path & target_bit:\n            node_hash = keccak(sibling_node + node_hash)", "        if _is_right(path, target_bit):\n            node_hash = keccak(sibling_node + node_hash)")])
V("c11-tie-goes-left", "C11", FG, "            if left_distance < right_distance:\n                return nearest_left", "            if left_distance <= right_distance:\n                return nearest_left", rule="PROV1b")
V("c11-distance-args-swapped", "C11", FG, "            left_distance = self._prefix_distance(nearest_left, key)", "            left_distance = self._prefix_distance(key, nearest_left)", rule="PROV1b")
V("c11-distance-fill-swapped", "C11", FG, "            if low_nibble is None:\n                final_low_nibble = 15", "            if low_nibble is None:\n                final_low_nibble = 0", rule="PROV1b")
V("c11-right-ignores-cover", "C11", FG, "            if key_starts_with(key, nearest_left):\n                return nearest_left\n            else:", "            if key_starts_with(nearest_left, key):\n                return nearest_left\n            else:", rule="PROV1b")
V("eq-nearest-unknown-flipped", "C11", FG, "            if left_distance < right_distance:\n                return nearest_left\n            else:\n                return nearest_right", "            if right_distance <= left_distance:\n                return nearest_right\n            return nearest_left", expect="silent")
V("c17-copy-merge-order", "C17", DB, "        combined = merge(self.wrapped_db, self.cache)", "        combined = merge(self.cache, self.wrapped_db)", rule="COPY")
V("c17-copy-keeps-deleted", "C17", DB, "        return valfilter(lambda val: val is not DELETED, combined)", "        return valfilter(lambda val: val is not None, combined)", rule="COPY")
V("c12-leaf-longer-key-accepted", "C12", BN, "            if keypath:\n                raise NodeOverrideError(\n                    \"Fail to set the value because the prefix of it's key\"\n                    \" is the same as existing key\"\n                )\n            if if_delete_subtrie:", "            if keypath and value:\n                raise NodeOverrideError(\n                    \"Fail to set the value because the prefix of it's key\"\n                    \" is the same as existing key\"\n                )\n            if if_delete_subtrie:", rule="SETTAB")
V("c12-handler-args-swapped", "C12", BN, "            return self._set_branch_node(\n                keypath, nodetype, left_child, right_child, value, if_delete_subtrie\n            )", "            return self._set_branch_node(\n                keypath, nodetype, right_child, left_child, value, if_delete_subtrie\n            )", rule="SETTAB")
V("c14-depth-wrong", "C14", SM, "        self.depth = key_size * 8  # depth is number of bits in the key", "        self.depth = key_size * 4  # depth is number of bits in the key", rule="SMTINIT")
V("c14-init-from-blank", "C14", SM, "        node = self._default  # Default leaf node", "        node = BLANK_NODE  # Default leaf node", rule="SMTINIT")
V("c12-default-subtrie-true", "C12", BN, "    def _set(self, node_hash, keypath, value, if_delete_subtrie=False):", "    def _set(self, node_hash, keypath, value, if_delete_subtrie=True):", rule="DEFAULTS")
V("c14-default-key-size", "C14", SM, "    def __init__(self, key_size: int = 32, default: bytes = BLANK_NODE):", "    def __init__(self, key_size: int = 20, default: bytes = BLANK_NODE):", rule="DEFAULTS")
V("c12-byte0-wrong", "C12", "trie/constants.py", "BYTE_0 = bytes([0])", "BYTE_0 = bytes(0)", rule="DEFAULTS")
V("c01-default-prune", "C01", HX, "    def __init__(self, db, root_hash=BLANK_NODE_HASH, prune=False, ref_count=None):", "    def __init__(self, db, root_hash=BLANK_NODE_HASH, prune=True, ref_count=None):", rule="DEFAULTS")
V("c01-lru-cached-get-node", "C01", HX, "    def get_node(self, node_hash):\n        if node_hash == BLANK_NODE:", "    @functools.lru_cache(1024)\n    def get_node(self, node_hash):\n        if node_hash == BLANK_NODE:", rule="RSRC")
V("c14-calc-root-start", "C14", SM, "    node_hash = keccak(value)\n    for sibling_node in reversed(branch):", "    node_hash = keccak(value or key)\n    for sibling_node in reversed(branch):", rule="SIB5")

# --- identity tests / flag forwarding (round-3 seeds C12) -------------------
V("c12-ident-blank-hash", "C12", BN, "        if node_hash == BLANK_HASH:\n            return None", "        if node_hash is BLANK_HASH:\n            return None", rule="IDENT")
V("c17-ident-deleted-eq-silent", "C17", DB, "            if val is not DELETED:", "            if not (val is DELETED):", expect="silent", props=["C17", "C04", "C05", "C06"])
V("c12-fwd-flag-dropped", "C12", BN, "                right_child, keypath[1:], value, if_delete_subtrie\n", "                right_child, keypath[1:], value\n", rule="FWD")
V("c12-fwd-flag-keyword-silent", "C12", BN, "                right_child, keypath[1:], value, if_delete_subtrie\n", "                right_child, keypath[1:], value, if_delete_subtrie=if_delete_subtrie\n", expect="silent")
V("c14-fwd-from-db-default", "C14", SM, "smt = cls(key_size=key_size, default=default)", "smt = cls(key_size=key_size)", rule="FWD")
# --- if/else swaps found by tools/refactor_sweep.py -------------------------
V("c16-writer-inverted", "C16", BI, "            if char & exp:\n                yield True\n            else:\n                yield False",
  "            if char & exp:\n                yield False\n            else:\n                yield True", rule="SIB7b")
V("c16-writer-ifswap-silent", "C16", BI, "            if char & exp:\n                yield True\n            else:\n                yield False",
  "            if not char & exp:\n                yield False\n            else:\n                yield True", expect="silent")
V("c14-calcroot-ifswap-silent", "C14", SM, "        if path & target_bit:\n            node_hash = keccak(sibling_node + node_hash)\n        else:\n            node_hash = keccak(node_hash + sibling_node)",
  "        if not path & target_bit:\n            node_hash = keccak(node_hash + sibling_node)\n        else:\n            node_hash = keccak(sibling_node + node_hash)", expect="silent", props=["C14", "C15"])
V("c14-calcroot-ifswap-wrong", "C14", SM, "        if path & target_bit:\n            node_hash = keccak(sibling_node + node_hash)\n        else:\n            node_hash = keccak(node_hash + sibling_node)",
  "        if not path & target_bit:\n            node_hash = keccak(sibling_node + node_hash)\n        else:\n            node_hash = keccak(node_hash + sibling_node)", rule="SIB5")
# --- RECOUNT (round-3 seed C06-r3-3) ----------------------------------------
V("c06-recount-wrong-blank-constant", "C06", HX, "isinstance(key, list) or key == BLANK_NODE_HASH:", "isinstance(key, list) or key == BLANK_NODE:", rule="RECOUNT")
V("c06-recount-skip-dropped", "C06", HX, "            if key == b\"\" or isinstance(key, list) or key == BLANK_NODE_HASH:\n                continue\n            new_ref_count[key] += 1",
  "            if isinstance(key, list) or key == BLANK_NODE_HASH:\n                continue\n            new_ref_count[key] += 1", rule="RECOUNT")
V("c06-recount-extension-key", "C06", HX, "                keys_to_count.append(node[1])", "                keys_to_count.append(node[0])", rule="RECOUNT")
V("c06-recount-assign", "C06", HX, "            new_ref_count[key] += 1\n", "            new_ref_count[key] = 1\n", rule="RECOUNT")
V("c06-recount-leaf-expanded", "C06", HX, "            elif node_type == NODE_TYPE_EXTENSION:\n                keys_to_count.append(node[1])",
  "            elif node_type in (NODE_TYPE_EXTENSION, NODE_TYPE_LEAF):\n                keys_to_count.append(node[1])", rule="RECOUNT")
V("c06-recount-reordered-silent", "C06", HX, "            if key == b\"\" or isinstance(key, list) or key == BLANK_NODE_HASH:\n                continue\n            new_ref_count[key] += 1",
  "            if key == BLANK_NODE_HASH or key == b\"\":\n                continue\n            if isinstance(key, list):\n                continue\n            new_ref_count[key] += 1", expect="silent")
V("c06-recount-arms-swapped-silent", "C06", HX, "            if node_type == NODE_TYPE_BRANCH:\n                keys_to_count.extend(node[:16])\n            elif node_type == NODE_TYPE_EXTENSION:\n                keys_to_count.append(node[1])",
  "            if node_type == NODE_TYPE_EXTENSION:\n                keys_to_count.append(node[1])\n            elif node_type == NODE_TYPE_BRANCH:\n                keys_to_count.extend(node[:16])", expect="silent")
# --- found by tools/mutant_survey.py ------------------------------------------
V("c15-scan-continue", "C15", SM, "                    branch_point = (self._branch_size - 1) - bit\n                    break", "                    branch_point = (self._branch_size - 1) - bit\n                    continue", rule="EFF5")
V("c18-proof-ctor-key-unvalidated", "C18", SM, "        validate_is_bytes(key)\n        validate_is_bytes(value)\n        validate_length(branch, len(key) * 8)\n\n        self._key = key",
  "        validate_is_bytes(value)\n        validate_length(branch, len(key) * 8)\n\n        self._key = key", rule="VAL2")
V("c18-proof-ctor-value-unvalidated", "C18", SM, "        validate_is_bytes(key)\n        validate_is_bytes(value)\n        validate_length(branch, len(key) * 8)\n\n        self._key = key",
  "        validate_is_bytes(key)\n        validate_length(branch, len(key) * 8)\n\n        self._key = key", rule="VAL2")
# --- round-3 seeds C18 ---------------------------------------------------------
V("c18-msg-percent-param", "C18", VA, "        raise ValidationError(f\"Value is not of type `bytes`: got '{type(value)}'\")", "        raise ValidationError(\"Value is not of type `bytes`: got %r\" % value)", rule="VALMSG")
V("c18-msg-percent-tuple-silent", "C18", VA, "        raise ValidationError(f\"Value is not of type `bytes`: got '{type(value)}'\")", "        raise ValidationError(\"Value is not of type `bytes`: got %r\" % (type(value),))", expect="silent")
V("c18-refcount-truthiness", "C18", HX, "        if ref_count is None:\n            if prune:", "        if not ref_count:\n            if prune:", rule="VAL3")
V("c18-refcount-isnot-silent", "C18", HX, "        if ref_count is None:\n            if prune:\n                self._ref_count = defaultdict(int)\n            else:\n                self._ref_count = None\n        else:\n            if prune:",
  "        if ref_count is None:\n            if not prune:\n                self._ref_count = None\n            else:\n                self._ref_count = defaultdict(int)\n        else:\n            if prune:", expect="silent")
# --- EXCACC / PRUNESTATE / tables (mutant survey, round-3 seed C07-r3-2) --------
V("c07-accessor-swapped", "C07", EX, "    def root_hash(self) -> HexBytes:\n        return self.args[1]", "    def root_hash(self) -> HexBytes:\n        return self.args[2]", rule="EXCACC")
V("c06-init-count-table-swapped", "C06", HX, "            if prune:\n                self._ref_count = defaultdict(int)\n            else:\n                self._ref_count = None", "            if not prune:\n                self._ref_count = defaultdict(int)\n            else:\n                self._ref_count = None", rule="PRUNESTATE")
V("c06-keep-zero-counts", "C06", HX, "            if new_count == 0:\n                # This is an optimization, to reduce the size of the _ref_count dict\n                del self._ref_count[key]", "            if new_count != 0:\n                # This is an optimization, to reduce the size of the _ref_count dict\n                del self._ref_count[key]", rule="PRUNESTATE")
V("c06-session-always-refused", "C06", HX, "            if self._pending_prune_keys is None:\n                self._pending_prune_keys = defaultdict(int)", "            if self._pending_prune_keys is not None:\n                self._pending_prune_keys = defaultdict(int)", rule="PRUNESTATE")
V("c01-persist-no-write", "C01", HX, "        if value is not None:\n            self._set_db_value(key, value)\n        return key", "        return key", rule="HEXTAB")
V("c01-normalise-key-order", "C01", HX, "                        [sub_node_idx],\n                        decode_nibbles(sub_node[0]),", "                        decode_nibbles(sub_node[0]),\n                        [sub_node_idx],", rule="HEXTAB")
V("c12-split-noop-negated", "C12", BN, "            if not value or if_delete_subtrie:\n                return node_hash", "            if value or if_delete_subtrie:\n                return node_hash", rule="SPLIT")
V("c12-collapse-bit-swapped", "C12", BN, "first_bit = BYTE_1 if new_right_child != BLANK_HASH else BYTE_0", "first_bit = BYTE_0 if new_right_child != BLANK_HASH else BYTE_1", rule="BRTAB")
V("c12-get-args-swapped", "C12", BN, "return self._get(self.root_hash, encode_to_bin(key))", "return self._get(encode_to_bin(key), self.root_hash)", rule="ROUTE2")
V("c01-set-args-crossed", "C01", HX, "            return self._set_kv_node(node, trie_key, value)", "            return self._set_kv_node(node, value, trie_key)", rule="ARGX")
# --- harmless additions (diagnostics, declared invariants) ---------------------
V("silent-logging-in-db-write", "C04", HX, "    def _set_db_value(self, key, value):\n        self.db[key] = value", "    def _set_db_value(self, key, value):\n        logging.getLogger('trie').debug('store %r', key)\n        self.db[key] = value",
  expect="silent", props=["C01", "C02", "C04", "C05", "C06", "C07"], edits=[(HX, "import contextlib\n", "import contextlib\nimport logging\n"),
  (HX, "    def _set_db_value(self, key, value):\n        self.db[key] = value", "    def _set_db_value(self, key, value):\n        logging.getLogger('trie').debug('store %r', key)\n        self.db[key] = value")])
V("silent-module-logger", "C04", HX, "", "", expect="silent", props=["C04", "C06"], edits=[(HX, "import contextlib\n", "import contextlib\nimport logging\n"),
  (HX, "class HexaryTrie:", "logger = logging.getLogger(__name__)\n\n\nclass HexaryTrie:"),
  (HX, "        if self.is_pruning:\n            self._ref_count[key] += 1", "        if self.is_pruning:\n            logger.debug('count %r', key)\n            self._ref_count[key] += 1")])
V("silent-assert-before-write", "C04", HX, "    def _set_db_value(self, key, value):\n        self.db[key] = value", "    def _set_db_value(self, key, value):\n        assert isinstance(key, bytes)\n        self.db[key] = value",
  expect="silent", props=["C04", "C05", "C06"], only=True)  # (C01 / C03: an assertion the path conditions cannot refute is a raise site for EXC1, by design)
V("silent-warnings-warn", "C14", SM, "        self._default = default\n", "        self._default = default\n        if default != BLANK_NODE:\n            warnings.warn('non-blank default')\n", expect="silent", props=["C14", "C15"],
  edits=[(SM, "from typing import (", "import warnings\nfrom typing import ("), (SM, "        self._default = default\n", "        self._default = default\n        if default != BLANK_NODE:\n            warnings.warn('non-blank default')\n")])

# round 4 (second batch): constructor bypass, validation behind a memo
V("c18-from-db-bypasses-init", "C18", SM, "        smt = cls(key_size=key_size, default=default)\n\n        # If db is provided",
  "        smt = cls.__new__(cls)\n        smt._key_size = key_size\n        smt._default = default\n\n        # If db is provided", rule="VAL3")
_BN_GET = "    def get(self, key):\n        \"\"\"\n        Fetches the value with a given keypath from the given node.\n\n        Key will be encoded into binary array format first.\n        \"\"\"\n        validate_is_bytes(key)\n\n        return self._get(self.root_hash, encode_to_bin(key))"
V("c18-validator-behind-lru-cache", "C18", BN, "", "", rule="VAL1",
  edits=[(BN, _BN_GET, "    def get(self, key):\n        return self._get(self.root_hash, _enc(key))"),
         (BN, "class BinaryTrie:", "import functools\n\n\n@functools.lru_cache(maxsize=128)\ndef _enc(key):\n    validate_is_bytes(key)\n    return encode_to_bin(key)\n\n\nclass BinaryTrie:")])
V("c13-witness-drops-diverging-kv-node", "C13", "trie/branches.py", "            )\n        else:\n            yield node\n    elif nodetype == BRANCH_TYPE:\n        if keypath[:1] == BYTE_0:\n            yield node\n            yield from _get_witness_for_key_prefix(db, left_child, keypath[1:])",
  "            )\n        else:\n            return\n    elif nodetype == BRANCH_TYPE:\n        if keypath[:1] == BYTE_0:\n            yield node\n            yield from _get_witness_for_key_prefix(db, left_child, keypath[1:])", rule="SIB4")

# loop forms (cond loop with a tail, break, generator loop): behaviour-preserving spellings of the recursions
_BN_GET_REC = '''        # Empty trie
        if node_hash == BLANK_HASH:
            return None
        nodetype, left_child, right_child = parse_node(self.db[node_hash])
        # Key-value node descend
        if nodetype == LEAF_TYPE:
            if keypath:
                return None
            return right_child
        elif nodetype == KV_TYPE:
            # Keypath too short
            if not keypath:
                return None
            if keypath[: len(left_child)] == left_child:
                return self._get(right_child, keypath[len(left_child) :])
            else:
                return None
        # Branch node descend
        elif nodetype == BRANCH_TYPE:
            # Keypath too short
            if not keypath:
                return None
            if keypath[:1] == BYTE_0:
                return self._get(left_child, keypath[1:])
            else:
                return self._get(right_child, keypath[1:])
'''
_BN_GET_LOOP = '''        while node_hash != BLANK_HASH:
            nodetype, left_child, right_child = parse_node(self.db[node_hash])
            if nodetype == LEAF_TYPE:
                if keypath:
                    return None
                return right_child
            elif nodetype == KV_TYPE:
                if not keypath:
                    break
                if keypath[: len(left_child)] == left_child:
                    node_hash = right_child
                    keypath = keypath[len(left_child) :]
                    continue
                else:
                    return None
            elif nodetype == BRANCH_TYPE:
                if not keypath:
                    return None
                if keypath[:1] == BYTE_0:
                    node_hash = left_child
                else:
                    node_hash = right_child
                keypath = keypath[1:]
            else:
                return None
        return None
'''
V("silent-bin-get-cond-loop", "C12", BN, _BN_GET_REC, _BN_GET_LOOP, expect="silent", props=["C12", "C13", "C18"])
V("c12-bin-get-cond-loop-wrong-child", "C12", BN, _BN_GET_REC, _BN_GET_LOOP.replace("                if keypath[:1] == BYTE_0:\n                    node_hash = left_child\n                else:\n                    node_hash = right_child", "                if keypath[:1] == BYTE_0:\n                    node_hash = right_child\n                else:\n                    node_hash = left_child"), rule="SIB4")
_BR_GETBRANCH_REC = '''    if node_hash == BLANK_HASH:
        return
    node = db[node_hash]
    nodetype, left_child, right_child = parse_node(node)
    if nodetype == LEAF_TYPE:
        if not keypath:
            yield node
        else:
            raise InvalidKeyError("Key too long")
    elif nodetype == KV_TYPE:
        if not keypath:
            raise InvalidKeyError("Key too short")
        if keypath[: len(left_child)] == left_child:
            yield node
            yield from _get_branch(db, right_child, keypath[len(left_child) :])
        else:
            yield node
    elif nodetype == BRANCH_TYPE:
        if not keypath:
            raise InvalidKeyError("Key too short")
        if keypath[:1] == BYTE_0:
            yield node
            yield from _get_branch(db, left_child, keypath[1:])
        else:
            yield node
            yield from _get_branch(db, right_child, keypath[1:])
    else:
        raise Exception("Invariant: unreachable code path")
'''
_BR_GETBRANCH_LOOP = '''    while node_hash != BLANK_HASH:
        node = db[node_hash]
        nodetype, left_child, right_child = parse_node(node)
        if nodetype == LEAF_TYPE:
            if keypath:
                raise InvalidKeyError("Key too long")
            yield node
            return
        if nodetype not in (KV_TYPE, BRANCH_TYPE):
            raise Exception("Invariant: unreachable code path")
        if not keypath:
            raise InvalidKeyError("Key too short")
        yield node
        if nodetype == KV_TYPE:
            if keypath[: len(left_child)] != left_child:
                return
            node_hash = right_child
            keypath = keypath[len(left_child) :]
        else:
            node_hash = left_child if keypath[:1] == BYTE_0 else right_child
            keypath = keypath[1:]
'''
V("silent-get-branch-generator-loop", "C13", "trie/branches.py", _BR_GETBRANCH_REC, _BR_GETBRANCH_LOOP, expect="silent", props=["C13", "C18"])
V("c13-get-branch-generator-loop-no-yield", "C13", "trie/branches.py", _BR_GETBRANCH_REC, _BR_GETBRANCH_LOOP.replace("        yield node\n        if nodetype == KV_TYPE:\n            if keypath[: len(left_child)] != left_child:\n                return\n", "        if nodetype == KV_TYPE:\n            if keypath[: len(left_child)] != left_child:\n                return\n            yield node\n").replace("        else:\n            node_hash = left_child if", "        else:\n            yield node\n            node_hash = left_child if"), rule="SIB4")

# the proof walker as a generator (tuple(...) at the entry point): TS5's second form
_PROOF_REC = '        return self._get_proof(node, trie_key)\n\n    def _get_proof(self, node, trie_key, proven_len=0, last_proof=tuple()):\n        updated_proof = last_proof + (node,)\n        unproven_key = trie_key[proven_len:]\n\n        node_type = get_node_type(node)\n        if node_type == NODE_TYPE_BLANK:\n            return last_proof\n        elif node_type == NODE_TYPE_LEAF:\n            return updated_proof\n        elif node_type == NODE_TYPE_EXTENSION:\n            current_key = extract_key(node)\n            if key_starts_with(unproven_key, current_key):\n                next_node = self.get_node(node[1])\n                new_proven_len = proven_len + len(current_key)\n                return self._get_proof(\n                    next_node, trie_key, new_proven_len, updated_proof\n                )\n            else:\n                return updated_proof\n        elif node_type == NODE_TYPE_BRANCH:\n            if not unproven_key:\n                return updated_proof\n            next_node = self.get_node(node[unproven_key[0]])\n            new_proven_len = proven_len + 1\n            return self._get_proof(next_node, trie_key, new_proven_len, updated_proof)\n        else:\n            raise Exception("Invariant: This shouldn\'t ever happen")\n\n'
_PROOF_GEN = '        return tuple(self._iter_proof_nodes(node, trie_key))\n\n    def _iter_proof_nodes(self, node, trie_key):\n        """\n        Yield the nodes of the proof for ``trie_key``, starting with ``node`` and\n        walking down towards the key. A blank node is never part of a proof.\n        """\n        unproven_key = trie_key\n        while True:\n            node_type = get_node_type(node)\n            if node_type == NODE_TYPE_BLANK:\n                return\n\n            yield node\n\n            if node_type == NODE_TYPE_LEAF:\n                return\n            elif node_type == NODE_TYPE_EXTENSION:\n                current_key = extract_key(node)\n                if not key_starts_with(unproven_key, current_key):\n                    return\n                next_node_pointer = node[1]\n                newly_proven_len = len(current_key)\n            elif node_type == NODE_TYPE_BRANCH:\n                if not unproven_key:\n                    return\n                next_node_pointer = node[unproven_key[0]]\n                newly_proven_len = 1\n            else:\n                raise Exception("Invariant: This shouldn\'t ever happen")\n\n            node = self.get_node(next_node_pointer)\n            unproven_key = unproven_key[newly_proven_len:]\n\n'
V("silent-proof-walker-generator", "C03", HX, _PROOF_REC, _PROOF_GEN, expect="silent", props=["C03", "C07", "C01", "C18"])
V("c03-proof-generator-leaf-not-yielded", "C03", HX, _PROOF_REC, '        return tuple(self._iter_proof_nodes(node, trie_key))\n\n    def _iter_proof_nodes(self, node, trie_key):\n        """\n        Yield the nodes of the proof for ``trie_key``, starting with ``node`` and\n        walking down towards the key. A blank node is never part of a proof.\n        """\n        unproven_key = trie_key\n        while True:\n            node_type = get_node_type(node)\n            if node_type == NODE_TYPE_BLANK:\n                return\n\n            if node_type == NODE_TYPE_LEAF:\n                return\n\n            yield node\n            if node_type == NODE_TYPE_EXTENSION:\n                current_key = extract_key(node)\n                if not key_starts_with(unproven_key, current_key):\n                    return\n                next_node_pointer = node[1]\n                newly_proven_len = len(current_key)\n            elif node_type == NODE_TYPE_BRANCH:\n                if not unproven_key:\n                    return\n                next_node_pointer = node[unproven_key[0]]\n                newly_proven_len = 1\n            else:\n                raise Exception("Invariant: This shouldn\'t ever happen")\n\n            node = self.get_node(next_node_pointer)\n            unproven_key = unproven_key[newly_proven_len:]\n\n', rule="TS5")
V("c03-proof-generator-extension-consumes-one", "C03", HX, _PROOF_REC, '        return tuple(self._iter_proof_nodes(node, trie_key))\n\n    def _iter_proof_nodes(self, node, trie_key):\n        """\n        Yield the nodes of the proof for ``trie_key``, starting with ``node`` and\n        walking down towards the key. A blank node is never part of a proof.\n        """\n        unproven_key = trie_key\n        while True:\n            node_type = get_node_type(node)\n            if node_type == NODE_TYPE_BLANK:\n                return\n\n            yield node\n\n            if node_type == NODE_TYPE_LEAF:\n                return\n            elif node_type == NODE_TYPE_EXTENSION:\n                current_key = extract_key(node)\n                if not key_starts_with(unproven_key, current_key):\n                    return\n                next_node_pointer = node[1]\n                newly_proven_len = len(current_key)\n            elif node_type == NODE_TYPE_BRANCH:\n                if not unproven_key:\n                    return\n                next_node_pointer = node[unproven_key[0]]\n                newly_proven_len = 1\n            else:\n                raise Exception("Invariant: This shouldn\'t ever happen")\n\n            node = self.get_node(next_node_pointer)\n            unproven_key = unproven_key[1:]\n\n', rule="TS5")

# fail-closed model checks: constructs whose effect on the classes the rules look at cannot be read off the definitions
V("adv-module-level-exec", "C14", SM, "class SparseMerkleTree:", "exec('pass')\n\n\nclass SparseMerkleTree:", expect="inconclusive")
V("adv-monkeypatched-method", "C01", HX, "class HexaryTrie:", "def _fast_exists(self, key):\n    return True\n\n\nclass HexaryTrie:", expect="inconclusive",
  edits=[(HX, "class HexaryTrie:", "def _fast_exists(self, key):\n    return True\n\n\nclass HexaryTrie:"),
         (HX, "    def _get_proof(self, node, trie_key, proven_len=0, last_proof=tuple()):", "    def _get_proof(self, node, trie_key, proven_len=0, last_proof=tuple()):"),
         (BN, "class BinaryTrie:", "import trie.hexary\n\ntrie.hexary.HexaryTrie.exists = trie.hexary._fast_exists\n\n\nclass BinaryTrie:")])
V("adv-subclass-override", "C01", HX, "class HexaryTrie:", "class HexaryTrie:", expect="inconclusive",
  edits=[(IT, "class NodeIterator:", "from trie.hexary import HexaryTrie as _HT\n\n\nclass _CachedTrie(_HT):\n    def get_node(self, node_hash):\n        return super().get_node(node_hash)\n\n\nclass NodeIterator:")])
V("adv-unknown-decorator", "C01", HX, "    def _set(self, node, trie_key, value):", "    @eth_utils.curry\n    def _set(self, node, trie_key, value):", expect="inconclusive",
  edits=[(HX, "    def _set(self, node, trie_key, value):", "    @eth_utils.curry\n    def _set(self, node, trie_key, value):"), (HX, "import contextlib\n", "import contextlib\nimport eth_utils\n")])
V("adv-global-statement", "C01", HX, "    def get_node(self, node_hash):\n", "    def get_node(self, node_hash):\n        global _LAST\n        _LAST = node_hash\n", expect="inconclusive")
V("adv-class-level-write-in-reader", "C01", HX, "    def get_node(self, node_hash):\n", "    def get_node(self, node_hash):\n        type(self)._last = node_hash\n", rule="EFF4")
V("adv-class-level-memo-read", "C01", HX, "    def get_node(self, node_hash):\n", "    def get_node(self, node_hash):\n        if HexaryTrie._memo.get(node_hash) is not None:\n            return HexaryTrie._memo[node_hash]\n", rule="RSRC",
  edits=[(HX, "    def get_node(self, node_hash):\n", "    def get_node(self, node_hash):\n        if HexaryTrie._memo.get(node_hash) is not None:\n            return HexaryTrie._memo[node_hash]\n"),
         (HX, "class HexaryTrie:\n", "class HexaryTrie:\n    _memo = {}\n")])

# loop spellings that used to be refused (benign binaryb-5, hexaryb-6, smtb-5) and wrong versions of them
_CPL_OLD = "    for idx, (left_nibble, right_nibble) in enumerate(zip(left_key, right_key)):\n        if left_nibble != right_nibble:\n            return idx\n    return min(len(left_key), len(right_key))\n"
_CPL_COUNTER = "    idx = 0\n    for pair in zip(left_key, right_key):\n        if pair[0] != pair[1]:\n            break\n        idx += 1\n    else:\n        return min(len(left_key), len(right_key))\n    return idx\n"
V("silent-common-prefix-counter", "C01", "trie/utils/nodes.py", _CPL_OLD, _CPL_COUNTER, expect="silent", props=["C01", "C08", "C12"])
V("c01-common-prefix-counter-starts-at-one", "C01", "trie/utils/nodes.py", _CPL_OLD, _CPL_COUNTER.replace("    idx = 0\n", "    idx = 1\n"), expect="inconclusive")
_SCAN_OLD = "            for bit in reversed(range(self._branch_size)):\n                if path_diff & (1 << bit) > 0:\n                    branch_point = (self._branch_size - 1) - bit\n                    break\n"
_SCAN_WHILE = "            bit = self._branch_size - 1\n            while bit >= 0:\n                if path_diff & (1 << bit) > 0:\n                    branch_point = (self._branch_size - 1) - bit\n                    break\n                bit -= 1\n"
V("silent-bit-scan-counting-while", "C15", SM, _SCAN_OLD, _SCAN_WHILE, expect="silent", props=["C15", "C14"])
V("c15-bit-scan-counting-while-from-lsb", "C15", SM, _SCAN_OLD, "            bit = 0\n            while bit < self._branch_size:\n                if path_diff & (1 << bit) > 0:\n                    branch_point = (self._branch_size - 1) - bit\n                    break\n                bit += 1\n", rule="EFF5")
V("c15-bit-scan-counting-while-skips-msb", "C15", SM, _SCAN_OLD, _SCAN_WHILE.replace("bit = self._branch_size - 1\n", "bit = self._branch_size - 2\n"), rule="EFF5")
_TRAV_OLD = '    def _traverse_from(\n        self, node: RawHexaryNode, trie_key\n    ) -> Tuple[RawHexaryNode, Nibbles]:\n        """\n        Traverse down the trie from the given node, using the trie_key to navigate.\n\n        At each node, consume a prefix from the key, and navigate to its child. Repeat\n        with that child node and so on, until:\n        - there is no key remaining, or\n        - the child node is a blank node, or\n        - the child node is a leaf node\n\n        :return: (the deepest child node, the unconsumed suffix of the key)\n        :raises MissingTraversalNode: if a node body is missing from the database\n        """\n        remaining_key = trie_key\n        while remaining_key:\n            node_type = get_node_type(node)\n\n            if node_type == NODE_TYPE_BLANK:\n                return BLANK_NODE, ()  # type: ignore # mypy thinks BLANK_NODE != b\'\'\n            elif node_type == NODE_TYPE_LEAF:\n                leaf_key = extract_key(node)\n                if key_starts_with(leaf_key, remaining_key):\n                    return node, remaining_key\n                else:\n                    # The trie key and leaf node key branch away from each other, so\n                    # there is no node at the specified key.\n                    return BLANK_NODE, ()  # type: ignore # mypy thinks BLANK_NODE != b\'\' # noqa: E501\n            elif node_type == NODE_TYPE_EXTENSION:\n                try:\n                    next_node_pointer, remaining_key = self._traverse_extension(\n                        node, remaining_key\n                    )\n                except _PartialTraversal:\n                    # could only descend part-way into an extension node\n                    return node, remaining_key\n            elif node_type == NODE_TYPE_BRANCH:\n                next_node_pointer = node[remaining_key[0]]\n                remaining_key = remaining_key[1:]\n            else:\n                raise Exception("Invariant: This shouldn\'t ever happen")\n\n            try:\n                node = self.get_node(next_node_pointer)\n            except KeyError as exc:\n                used_key = trie_key[: len(trie_key) - len(remaining_key)]\n\n                raise MissingTraversalNode(exc.args[0], used_key)\n\n        # navigated down the full key\n        return node, Nibbles(())\n\n'
_TRAV_MACHINE = '    def _traverse_from(\n        self, node: RawHexaryNode, trie_key\n    ) -> Tuple[RawHexaryNode, Nibbles]:\n        """\n        Traverse down the trie from the given node, using the trie_key to navigate.\n\n        At each node, consume a prefix from the key, and navigate to its child. Repeat\n        with that child node and so on, until:\n        - there is no key remaining, or\n        - the child node is a blank node, or\n        - the child node is a leaf node\n\n        :return: (the deepest child node, the unconsumed suffix of the key)\n        :raises MissingTraversalNode: if a node body is missing from the database\n        """\n        remaining_key = trie_key\n        while True:\n            if len(remaining_key) == 0:\n                # navigated down the full key\n                return node, Nibbles(())\n\n            node_type = get_node_type(node)\n\n            if node_type == NODE_TYPE_BRANCH:\n                next_node_pointer = node[remaining_key[0]]\n                remaining_key = remaining_key[1:]\n            elif node_type == NODE_TYPE_EXTENSION:\n                try:\n                    next_node_pointer, remaining_key = self._traverse_extension(\n                        node, remaining_key\n                    )\n                except _PartialTraversal:\n                    # could only descend part-way into an extension node\n                    return node, remaining_key\n            elif node_type == NODE_TYPE_LEAF:\n                leaf_key = extract_key(node)\n                if not key_starts_with(leaf_key, remaining_key):\n                    # The trie key and leaf node key branch away from each other, so\n                    # there is no node at the specified key.\n                    return BLANK_NODE, ()  # type: ignore # mypy thinks BLANK_NODE != b\'\' # noqa: E501\n                return node, remaining_key\n            elif node_type == NODE_TYPE_BLANK:\n                return BLANK_NODE, ()  # type: ignore # mypy thinks BLANK_NODE != b\'\'\n            else:\n                raise Exception("Invariant: This shouldn\'t ever happen")\n\n            try:\n                node = self.get_node(next_node_pointer)\n            except KeyError as exc:\n                used_key = trie_key[: len(trie_key) - len(remaining_key)]\n\n                raise MissingTraversalNode(exc.args[0], used_key)\n\n'
V("silent-traverse-from-while-true", "C08", HX, _TRAV_OLD, _TRAV_MACHINE, expect="silent", props=["C08", "C01", "C07"])
V("c08-traverse-from-while-true-skips-two", "C08", HX, _TRAV_OLD, '    def _traverse_from(\n        self, node: RawHexaryNode, trie_key\n    ) -> Tuple[RawHexaryNode, Nibbles]:\n        """\n        Traverse down the trie from the given node, using the trie_key to navigate.\n\n        At each node, consume a prefix from the key, and navigate to its child. Repeat\n        with that child node and so on, until:\n        - there is no key remaining, or\n        - the child node is a blank node, or\n        - the child node is a leaf node\n\n        :return: (the deepest child node, the unconsumed suffix of the key)\n        :raises MissingTraversalNode: if a node body is missing from the database\n        """\n        remaining_key = trie_key\n        while True:\n            if len(remaining_key) == 0:\n                # navigated down the full key\n                return node, Nibbles(())\n\n            node_type = get_node_type(node)\n\n            if node_type == NODE_TYPE_BRANCH:\n                next_node_pointer = node[remaining_key[0]]\n                remaining_key = remaining_key[2:]\n            elif node_type == NODE_TYPE_EXTENSION:\n                try:\n                    next_node_pointer, remaining_key = self._traverse_extension(\n                        node, remaining_key\n                    )\n                except _PartialTraversal:\n                    # could only descend part-way into an extension node\n                    return node, remaining_key\n            elif node_type == NODE_TYPE_LEAF:\n                leaf_key = extract_key(node)\n                if not key_starts_with(leaf_key, remaining_key):\n                    # The trie key and leaf node key branch away from each other, so\n                    # there is no node at the specified key.\n                    return BLANK_NODE, ()  # type: ignore # mypy thinks BLANK_NODE != b\'\' # noqa: E501\n                return node, remaining_key\n            elif node_type == NODE_TYPE_BLANK:\n                return BLANK_NODE, ()  # type: ignore # mypy thinks BLANK_NODE != b\'\'\n            else:\n                raise Exception("Invariant: This shouldn\'t ever happen")\n\n            try:\n                node = self.get_node(next_node_pointer)\n            except KeyError as exc:\n                used_key = trie_key[: len(trie_key) - len(remaining_key)]\n\n                raise MissingTraversalNode(exc.args[0], used_key)\n\n', expect="inconclusive")
V("c08-branch-hop-consumes-two", "C08", HX, "                next_node_pointer = node[remaining_key[0]]\n                remaining_key = remaining_key[1:]", "                next_node_pointer = node[remaining_key[0]]\n                remaining_key = remaining_key[2:]", rule="ABS1")
V("c01-branch-hop-consumes-two", "C01", HX, "                next_node_pointer = node[remaining_key[0]]\n                remaining_key = remaining_key[1:]", "                next_node_pointer = node[remaining_key[0]]\n                remaining_key = remaining_key[2:]", rule="ABS1")

# guarded remove() as the membership test of mark_all_complete: right and wrong spellings
_MAC_OLD = "            if prefix not in new_unexplored_prefixes:\n                raise ValidationError(\n                    f\"When marking {prefix} complete, could not \"\n                    f\"find in {new_unexplored_prefixes!r}\"\n                )\n\n            new_unexplored_prefixes.remove(prefix)\n"
V("silent-mark-all-complete-guarded-remove", "C11", FG, _MAC_OLD, "            try:\n                new_unexplored_prefixes.remove(prefix)\n            except KeyError:\n                raise ValidationError(f\"When marking {prefix} complete, could not find it\") from None\n", expect="silent", props=["C11", "C10"])
V("c11-mark-all-complete-swallows-unknown", "C11", FG, _MAC_OLD, "            try:\n                new_unexplored_prefixes.remove(prefix)\n            except KeyError:\n                pass\n", rule="FOGPOL")
V("c11-mark-all-complete-discard", "C11", FG, _MAC_OLD, "            new_unexplored_prefixes.discard(prefix)\n")

# key_starts_with as a loop / as all(map(operator.eq, ..)): right and wrong
_KSW_OLD = "    else:\n        return all(left == right for left, right in zip(full_key, partial_key))\n"
V("silent-key-starts-with-loop", "C01", "trie/utils/nodes.py", _KSW_OLD, "    for left, right in zip(full_key, partial_key):\n        if not (left == right):\n            return False\n    return True\n", expect="silent", props=["C01", "C07", "C08", "C12"])
V("c01-key-starts-with-loop-first-pair-only", "C01", "trie/utils/nodes.py", _KSW_OLD, "    for left, right in zip(full_key, partial_key):\n        if left == right:\n            return True\n    return False\n", expect="inconclusive")
V("silent-key-starts-with-map-eq", "C01", "trie/utils/nodes.py", _KSW_OLD, "    else:\n        return all(map(operator.eq, full_key, partial_key))\n", expect="silent", props=["C01", "C12"],
  edits=[("trie/utils/nodes.py", _KSW_OLD, "    else:\n        return all(map(operator.eq, full_key, partial_key))\n"), ("trie/utils/nodes.py", "def key_starts_with(full_key, partial_key):", "import operator\n\n\ndef key_starts_with(full_key, partial_key):")])
V("c01-key-starts-with-map-ne", "C01", "trie/utils/nodes.py", _KSW_OLD, "", expect="inconclusive",
  edits=[("trie/utils/nodes.py", _KSW_OLD, "    else:\n        return all(map(operator.ne, full_key, partial_key))\n"), ("trie/utils/nodes.py", "def key_starts_with(full_key, partial_key):", "import operator\n\n\ndef key_starts_with(full_key, partial_key):")])

# the SMT fold with (path >> i) & 1 over enumerate(reversed(branch)): right and wrong orientation
_FOLD_OLD = "    for sibling_node in reversed(branch):\n        if path & target_bit:\n            node_hash = keccak(sibling_node + node_hash)\n        else:\n            node_hash = keccak(node_hash + sibling_node)\n        target_bit <<= 1\n"
V("silent-calc-root-enumerate-shift", "C14", SM, _FOLD_OLD, "    for bit_index, sibling_node in enumerate(reversed(branch)):\n        if (path >> bit_index) & 1:\n            node_hash = keccak(sibling_node + node_hash)\n        else:\n            node_hash = keccak(node_hash + sibling_node)\n", expect="silent", props=["C14", "C15"])
V("c14-calc-root-enumerate-shift-swapped", "C14", SM, _FOLD_OLD, "    for bit_index, sibling_node in enumerate(reversed(branch)):\n        if (path >> bit_index) & 1:\n            node_hash = keccak(node_hash + sibling_node)\n        else:\n            node_hash = keccak(sibling_node + node_hash)\n", rule="SIB5")
V("c14-calc-root-enumerate-not-reversed", "C14", SM, _FOLD_OLD, "    for bit_index, sibling_node in enumerate(branch):\n        if (path >> bit_index) & 1:\n            node_hash = keccak(sibling_node + node_hash)\n        else:\n            node_hash = keccak(node_hash + sibling_node)\n", expect="inconclusive")

# contextlib.suppress as try / except pass: right and wrong
_EX_OLD = "        try:\n            self.get(key)\n            return True\n        except KeyError:\n            return False\n"
_EX_IMP = (SM, "from typing import (", "import contextlib\nfrom typing import (")
V("silent-smt-exists-suppress", "C14", SM, _EX_OLD, "", expect="silent", props=["C14", "C15", "C18"],
  edits=[(SM, _EX_OLD, "        with contextlib.suppress(KeyError):\n            self.get(key)\n            return True\n        return False\n"), _EX_IMP])
V("c14-smt-exists-suppress-inverted", "C14", SM, _EX_OLD, "", rule="SIB1",
  edits=[(SM, _EX_OLD, "        with contextlib.suppress(KeyError):\n            self.get(key)\n            return False\n        return True\n"), _EX_IMP])
# a loop over a display of the two parameters instead of two statement pairs: right, and with one of the two forgotten
_EBN_OLD = "    validate_is_bytes(left_child_node_hash)\n    validate_length(left_child_node_hash, 32)\n    validate_is_bytes(right_child_node_hash)\n    validate_length(right_child_node_hash, 32)\n"
V("silent-encode-branch-display-loop", "C18", "trie/utils/nodes.py", _EBN_OLD, "    for child_node_hash in (left_child_node_hash, right_child_node_hash):\n        validate_is_bytes(child_node_hash)\n        validate_length(child_node_hash, 32)\n", expect="silent", props=["C18", "C16", "C12"])
V("c18-encode-branch-display-loop-one-only", "C18", "trie/utils/nodes.py", _EBN_OLD, "    for child_node_hash in (left_child_node_hash,):\n        validate_is_bytes(child_node_hash)\n        validate_length(child_node_hash, 32)\n")

# bit packing spelled with generator expression / map(operator.mul): right and wrong
_E2B_OLD = "    for char in value:\n        for exp in EXP:\n            if char & exp:\n                yield True\n            else:\n                yield False\n"
V("silent-encode-to-bin-genexp", "C16", "trie/utils/binaries.py", _E2B_OLD, "    return (bool(char & exp) for char in value for exp in EXP)\n", expect="silent", props=["C16", "C12"])
V("c16-encode-to-bin-genexp-inverted", "C16", "trie/utils/binaries.py", _E2B_OLD, "    return (not (char & exp) for char in value for exp in EXP)\n", expect="inconclusive")
