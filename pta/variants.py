"""Self-validation corpus: in-memory single edits of the current sources."""

VARIANTS = []

HX = "trie/hexary.py"
BN = "trie/binary.py"
BR = "trie/branches.py"
SM = "trie/smt.py"
DB = "trie/utils/db.py"
ND = "trie/utils/nodes.py"
NB = "trie/utils/nibbles.py"
FG = "trie/fog.py"
IT = "trie/iter.py"
EX = "trie/exceptions.py"
TY = "trie/typing.py"
VA = "trie/validation.py"


def V(id, prop, file, old, new, expect="fire", rule=None, props=None, edits=None):
    d = {"id": id, "prop": prop, "file": file, "old": old, "new": new, "expect": expect, "rule": rule}
    if props:
        d["props"] = props
    if edits:
        d["edits"] = edits
    VARIANTS.append(d)


# --- C04 -------------------------------------------------------------------
V("c04-do-deletes-true", "C04", HX, "batch_commit(do_deletes=self.is_pruning)", "batch_commit(do_deletes=True)", rule="EFF2")
V("c04-delete-outside-guard", "C04", HX, "        self.root_hash = self._set_raw_node(root_node)\n",
  "        self.db.pop(self.root_hash, None)\n        self.root_hash = self._set_raw_node(root_node)\n", rule="EFF2")
V("c04-complete-pruning-unguarded", "C04", HX, "            if self.is_pruning:\n                self._complete_pruning()",
  "            if self._pending_prune_keys is not None:\n                self._complete_pruning()", rule="EFF2")
V("c04-key-not-bound", "C04", HX, "            node_hash = keccak(encoded_node)\n        else:", "            node_hash = keccak(key)\n        else:", rule="EFF3")
V("c04-persist-wrong-key", "C04", HX, "            self._set_db_value(key, value)\n        return key", "            self._set_db_value(value[:32], value)\n        return key", rule="EFF3")
V("c04-root-before-write", "C04", HX, "        self.root_hash = self._set_raw_node(root_node)\n\n    def get_node",
  "        key, value = self._node_to_db_mapping(root_node)\n        self.root_hash = key\n        self._set_raw_node(root_node)\n\n    def get_node", rule="ORD1")
V("c04-silent-alias-db", "C04", HX, "    def _set_db_value(self, key, value):\n        self.db[key] = value",
  "    def _set_db_value(self, key, value):\n        store = self.db\n        store[key] = value", expect="silent")
V("c04-silent-guard-alias", "C04", HX, "            if self.is_pruning:\n                self._complete_pruning()",
  "            pruning = self.is_pruning\n            if pruning:\n                self._complete_pruning()", expect="silent")
V("c04-silent-not-not", "C04", HX, "            if self.is_pruning:\n                self._complete_pruning()",
  "            if not self.is_pruning:\n                pass\n            else:\n                self._complete_pruning()", expect="silent")
# --- C12 -------------------------------------------------------------------
V("c12-delete-clears-root-first", "C12", BN, "        self.root_hash = self._set(self.root_hash, encode_to_bin(key), b\"\")",
  "        old = self.root_hash\n        self.root_hash = BLANK_HASH\n        self.root_hash = self._set(old, encode_to_bin(key), b\"\")", rule="ORD1")
V("c12-hash-of-prefix", "C12", BN, "        node_hash = keccak(node)\n        self.db[node_hash] = node", "        node_hash = keccak(node[1:])\n        self.db[node_hash] = node", rule="EFF3")
V("c12-get-writes", "C12", BN, "        validate_is_bytes(key)\n\n        return self._get(self.root_hash, encode_to_bin(key))",
  "        validate_is_bytes(key)\n        self.db.pop(key, None)\n\n        return self._get(self.root_hash, encode_to_bin(key))", rule="EFF4")
# --- C13 -------------------------------------------------------------------
V("c13-db-keyed-by-prefix", "C13", BR, "db = {keccak(node): node for node in branch}", "db = {node[:32]: node for node in branch}", rule="EFF3")
V("c13-helper-writes", "C13", BR, "    node = db[node_hash]\n    nodetype, left_child, right_child = parse_node(node)\n    if nodetype == LEAF_TYPE:\n        if not keypath:",
  "    node = db[node_hash]\n    db[node_hash] = node\n    nodetype, left_child, right_child = parse_node(node)\n    if nodetype == LEAF_TYPE:\n        if not keypath:", rule="EFF4")
# --- C14 -------------------------------------------------------------------
V("c14-set-wrong-key", "C14", SM, "            self.db[node_hash] = node\n\n            # Update", "            self.db[sibling_node] = node\n\n            # Update", rule="EFF3")
# --- C01 -------------------------------------------------------------------
V("c01-get-writes-root", "C01", HX, "        trie_key = bytes_to_nibbles(key)\n        root_hash = self.root_hash\n        try:",
  "        trie_key = bytes_to_nibbles(key)\n        root_hash = self.root_hash\n        self.root_hash = root_hash\n        try:", rule="EFF4")
