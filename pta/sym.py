"""Symbolic terms + small abstract domains, evaluated along enumerated paths.

No solver: terms are built by structural evaluation of expressions, facts are
kept per term in four small lattices (Kind set, Len interval, truth value,
equal/unequal constants) and refined by the ``assume`` events of a path; a
path whose facts become contradictory is infeasible.
"""
import ast
import itertools

from .model import UNKNOWN, Inconclusive
from .walk import Walker
from .spec import MUTATING_METHODS

KINDS = ("BLANK", "LEAF", "EXT", "BRANCH")
ALLK = frozenset(KINDS)
INF = 10 ** 9

NODES = "trie.utils.nodes:"
Q_GET_NODE_TYPE = NODES + "get_node_type"
CLASSIFIERS = {
    NODES + "is_leaf_node": ("LEAF",),
    NODES + "is_extension_node": ("EXT",),
    NODES + "is_blank_node": ("BLANK",),
    NODES + "is_branch_node": ("BRANCH",),
}
LEN_PRESERVING = {"ctor:trie.typing:Nibbles", "ext:tuple", "ext:list", "ext:bytes", "ext:hexbytes.HexBytes",
                  "ext:sorted", "ext:reversed"}


def C(v):
    return ("c", v)


def is_c(t):
    return isinstance(t, tuple) and len(t) == 2 and t[0] == "c"


_uid = itertools.count()


def unk(tag="?"):
    return ("unk", tag, next(_uid))


class Facts:
    __slots__ = ("kind", "len", "truth", "eq", "ne", "none", "bad", "inset", "offs")

    def __init__(self):
        self.inset = {}
        self.offs = {}
        self.kind = {}
        self.len = {}
        self.truth = {}
        self.eq = {}
        self.ne = {}
        self.none = {}
        self.bad = None

    def copy(self):
        f = Facts()
        f.kind = dict(self.kind)
        f.len = dict(self.len)
        f.truth = dict(self.truth)
        f.eq = dict(self.eq)
        f.ne = {k: set(v) for k, v in self.ne.items()}
        f.none = dict(self.none)
        f.inset = dict(self.inset)
        f.offs = dict(self.offs)
        f.bad = self.bad
        return f

    def merge_from(self, other):
        """Add all facts of `other` (already substituted); -> False on contradiction."""
        ok = True
        for t, k in other.kind.items():
            ok &= self.set_kind(t, k)
        for t, (lo, hi) in other.len.items():
            ok &= self.set_len(t, lo, hi)
        for t, v in other.truth.items():
            ok &= self.set_truth(t, v)
        for t, v in other.eq.items():
            ok &= self.set_eq(t, v)
        for t, vs in other.ne.items():
            for v in vs:
                ok &= self.set_ne(t, v)
        for t, v in other.none.items():
            ok &= self.set_none(t, v)
        for t, v in other.inset.items():
            ok &= self.set_inset(t, v)
        for k, (lo, hi) in other.offs.items():
            ok &= self.set_off(k[0], k[1], lo, hi)
        return ok

    def _fail(self, why):
        self.bad = why
        return False

    def set_kind(self, t, ks):
        ks = frozenset(ks)
        cur = self.kind.get(t, ALLK)
        new = cur & ks
        if not new:
            return self._fail("kind %s vs %s" % (sorted(cur), sorted(ks)))
        self.kind[t] = new
        if new == frozenset(["BLANK"]):
            if not self.set_len(t, 0, 0):
                return False
        elif "BLANK" not in new:
            lo = 17 if new == frozenset(["BRANCH"]) else 2
            hi = 2 if "BRANCH" not in new else 17
            if not self.set_len(t, lo, hi):
                return False
        return True

    def set_len(self, t, lo, hi):
        clo, chi = self.len.get(t, (0, INF))
        nlo, nhi = max(clo, lo), min(chi, hi)
        if nlo > nhi:
            return self._fail("len [%s,%s] vs [%s,%s]" % (clo, chi, lo, hi))
        self.len[t] = (nlo, nhi)
        return True

    def set_truth(self, t, v):
        if t in self.truth and self.truth[t] != v:
            return self._fail("truth of %s" % (short(t),))
        self.truth[t] = v
        return True

    def set_eq(self, t, v):
        if t in self.eq and not _ceq(self.eq[t], v):
            return self._fail("eq %r vs %r" % (self.eq[t], v))
        if t in self.inset and not any(_ceq(v, x) for x in self.inset[t]):
            return self._fail("eq %r outside the value set" % (v,))
        if any(_ceq(v, x) for x in self.ne.get(t, ())):
            return self._fail("eq %r but known != " % (v,))
        self.eq[t] = v
        return True

    def set_ne(self, t, v):
        if t in self.eq and _ceq(self.eq[t], v):
            return self._fail("ne %r but known ==" % (v,))
        self.ne.setdefault(t, set()).add(_hk(v))
        if t in self.inset:
            rest = frozenset(x for x in self.inset[t] if not _ceq(x, v))
            if not rest:
                return self._fail("value set exhausted")
            self.inset[t] = rest
        return True

    def set_inset(self, t, vals):
        vals = frozenset(vals)
        cur = self.inset.get(t)
        new = vals if cur is None else (cur & vals)
        if t in self.eq:
            if not any(_ceq(self.eq[t], x) for x in new):
                return self._fail("eq not in set")
        new = frozenset(x for x in new if not any(_ceq(x, y) for y in self.ne.get(t, ())))
        if not new:
            return self._fail("empty value set")
        self.inset[t] = new
        return True

    def set_off(self, x, base, lo, hi):
        """len(x) - base in [lo, hi] (base is a symbolic integer term)"""
        clo, chi = self.offs.get((x, base), (-INF, INF))
        nlo, nhi = max(clo, lo), min(chi, hi)
        if nlo > nhi:
            return self._fail("offset of len(%s) from %s" % (short(x, 30), short(base, 30)))
        self.offs[(x, base)] = (nlo, nhi)
        return True

    def set_none(self, t, v):
        if t in self.none and self.none[t] != v:
            return self._fail("None-ness of %s" % (short(t),))
        self.none[t] = v
        return True


def _hk(v):
    try:
        hash(v)
        return v
    except TypeError:
        return repr(v)


def _ceq(a, b):
    try:
        return type(a) == type(b) and a == b or (a == b and not isinstance(a, bool) and not isinstance(b, bool))
    except Exception:
        return False


def short(t, n=60):
    s = tstr(t)
    return s if len(s) <= n else s[: n - 3] + "..."


def tstr(t):
    if not isinstance(t, tuple) or not t:
        return repr(t)
    h = t[0]
    if h == "c":
        return repr(t[1])
    if h == "p":
        return t[1]
    if h == "self":
        return "self"
    if h == "attr":
        return "%s.%s" % (tstr(t[1]), t[2])
    if h == "call":
        return "%s(%s)" % (t[1].split(":")[-1], ", ".join(tstr(a) for a in t[2]))
    if h == "sub":
        return "%s[%s]" % (tstr(t[1]), tstr(t[2]))
    if h == "slice":
        return "%s[%s:%s]" % (tstr(t[1]), "" if t[2] is None else tstr(t[2]), "" if t[3] is None else tstr(t[3]))
    if h in ("tuple", "list"):
        return ("(%s)" if h == "tuple" else "[%s]") % ", ".join(tstr(a) for a in t[1])
    if h == "bin":
        return "(%s %s %s)" % (tstr(t[2]), t[1], tstr(t[3]))
    if h == "cmp":
        return "(%s %s %s)" % (tstr(t[2]), t[1], tstr(t[3]))
    if h == "len":
        return "len(%s)" % tstr(t[1])
    if h == "upd":
        return "%s{%s:=%s}" % (tstr(t[1]), tstr(t[2]), tstr(t[3]))
    if h == "un":
        return "%s %s" % (t[1], tstr(t[2]))
    if h == "iter":
        return "elem(%s)#%s" % (tstr(t[1]), t[2])
    if h == "unk":
        return "?%s" % t[1]
    return "%s(%s)" % (h, ",".join(tstr(a) if isinstance(a, tuple) else repr(a) for a in t[1:]))


class State:
    __slots__ = ("env", "attrs", "facts", "ret", "exc", "log", "alog", "events", "cterms", "done")

    def __init__(self):
        self.env = {}
        self.attrs = {}
        self.facts = Facts()
        self.ret = None
        self.exc = None
        self.log = []
        self.alog = []
        self.cterms = {}  # id(call node) -> its term as evaluated when the call happened (before later rebindings)
        self.done = False  # the path is finished: recorded nodes evaluate to what they were when their event happened
        self.events = []

    def fork(self):
        s = State()
        s.env = dict(self.env)
        s.attrs = dict(self.attrs)
        s.facts = self.facts.copy()
        s.ret = self.ret
        s.exc = self.exc
        s.log = list(self.log)
        s.alog = list(self.alog)
        s.cterms = dict(self.cterms)
        s.done = self.done
        s.events = list(self.events)
        return s


class SymEngine:
    def __init__(self, ctx):
        self.ctx = ctx
        self.P = ctx.P
        self.R = ctx.R
        self._summ = {}
        self._in_progress = set()
        self.kval = {}
        cm = self.P.modules.get("trie.constants")
        if cm is not None:
            for name, k in (("NODE_TYPE_BLANK", "BLANK"), ("NODE_TYPE_LEAF", "LEAF"),
                            ("NODE_TYPE_EXTENSION", "EXT"), ("NODE_TYPE_BRANCH", "BRANCH")):
                v = self.P.const(cm, name)
                if v is not UNKNOWN:
                    self.kval[v] = k

    # ------------------------------------------------------------------
    # expression -> term
    # ------------------------------------------------------------------
    def ev(self, e, f, st):
        if e is None:
            return C(None)
        if st.done:
            # a rule looks at an event's expression after the path has ended: it means the value it had then,
            # not under the bindings at the end of the path (a loop form rebinds `node`, `keypath`, ...)
            t = st.cterms.get(id(e))
            if t is not None:
                return t
        m = getattr(self, "_e_" + type(e).__name__, None)
        if m is None:
            return unk(type(e).__name__)
        return m(e, f, st)

    def _e_Constant(self, e, f, st):
        return C(e.value)

    def _e_Name(self, e, f, st):
        n = e.id
        if n in st.env:
            return st.env[n]
        if n in ("True", "False", "None"):
            return C({"True": True, "False": False, "None": None}[n])
        if f.self_name == n:
            return ("self",)
        if n in f.all_params():
            return ("p", n)
        v = self.P.const(f.module, n)
        if v is not UNKNOWN:
            return self._const_term(v)
        r = self.R._lookup_name(n, f)
        if r is not None:
            if r[0] == "func":
                return ("fn", r[1].qual)
            if r[0] == "class":
                return ("cls", r[1].qual)
            if r[0] == "ext":
                return ("ext", r[1])
        # a module-level dict display of constants (a lookup table that is only read): its key / value terms
        node_ = f.module.const_nodes.get(n) if hasattr(f.module, "const_nodes") else None
        if isinstance(node_, ast.Dict) and node_.keys and all(k is not None for k in node_.keys):
            try:
                pairs = []
                for k_, v_ in zip(node_.keys, node_.values):
                    kv, vv = self.P.fold(f.module, k_), self.P.fold(f.module, v_)
                    if kv is UNKNOWN or vv is UNKNOWN:
                        raise ValueError
                    pairs.append((self._const_term(kv), self._const_term(vv)))
                return ("dict", tuple(pairs))
            except Exception:
                pass
        return ("g", n)

    def _const_term(self, v):
        if isinstance(v, list):
            return ("list", tuple(self._const_term(x) for x in v))
        try:
            hash(v)
        except TypeError:
            return unk("const")
        return C(v)

    def _e_Attribute(self, e, f, st):
        key = ast.unparse(e)
        if key in st.attrs:
            return st.attrs[key]
        b = self.ev(e.value, f, st)
        # class-level constant shortcuts (HexaryTrie.BLANK_NODE)
        t = self.R.type_of(e.value, f)
        if t and t[0] in ("inst", "cls") and e.attr in t[1].class_attrs:
            v = self.P.fold(t[1].module, t[1].class_attrs[e.attr])
            if v is not UNKNOWN:
                return self._const_term(v)
        if b[0] == "call" and b[1].startswith("ctor:"):
            v = self.ctor_field(b, e.attr)
            if v is not None:
                return v
        return ("attr", b, e.attr)

    def ctor_field(self, bt, attr):
        """FieldConst: value `__init__` gives to self.<attr> for a constructor term,
        when every feasible path of the constructor assigns the same term."""
        key = (bt, attr)
        memo = self.__dict__.setdefault("_ctor_memo", {})
        if key in memo:
            return memo[key]
        memo[key] = None
        cls = self.P.classes.get(bt[1][5:])
        init = cls.methods.get("__init__") if cls else None
        if init is None:
            return None
        st = State()
        params = list(init.params)
        st.env[params[0]] = ("newobj", cls.qual)
        params = params[1:]
        for pn, a in zip(params, bt[2]):
            if a[0] == "star":
                return None
            st.env[pn] = a
        for k, v in bt[3]:
            if k is None:
                return None
            st.env[k] = v
        for pn, d in init.defaults().items():
            if pn not in st.env:
                v = self.P.fold(init.module, d)
                st.env[pn] = self._const_term(v) if v is not UNKNOWN else unk("default")
        vals = set()
        for p in self.ctx.X.paths(init):
            if p.exit[0] == "raise":
                continue
            for s in self.run(init, p, init=st):
                v = s.attrs.get("%s.%s" % (init.params[0], attr))
                if v is None:
                    return None
                vals.add(v)
        if len(vals) == 1:
            memo[key] = next(iter(vals))
        return memo[key]

    def _e_Tuple(self, e, f, st):
        if not e.elts:
            return C(())
        return ("tuple", tuple(self.ev(x, f, st) for x in e.elts))

    def _e_List(self, e, f, st):
        return ("list", tuple(self.ev(x, f, st) for x in e.elts))

    def _e_Set(self, e, f, st):
        items = [self.ev(x, f, st) for x in e.elts]
        if all(is_c(i) for i in items):
            try:
                return C(frozenset(i[1] for i in items))
            except TypeError:
                pass
        return ("set", tuple(items))

    def _e_Starred(self, e, f, st):
        return ("star", self.ev(e.value, f, st))

    def _e_JoinedStr(self, e, f, st):
        return unk("fstr")

    def _e_Subscript(self, e, f, st):
        b = self.ev(e.value, f, st)
        if isinstance(e.slice, ast.Slice):
            lo = self.ev(e.slice.lower, f, st) if e.slice.lower is not None else None
            hi = self.ev(e.slice.upper, f, st) if e.slice.upper is not None else None
            if e.slice.step is not None:
                stp = self.ev(e.slice.step, f, st)
                if lo is None and hi is None and stp == C(-1):
                    # x[::-1]: the elements of x back to front - what reversed(x) iterates over
                    if is_c(b) and isinstance(b[1], (tuple, bytes, str)):
                        return C(b[1][::-1])
                    return ("call", "ext:reversed", (b,), ())
                return unk("step-slice")
            return self.mk_slice(b, lo, hi)
        i = self.ev(e.slice, f, st)
        return self.mk_sub(b, i)

    def mk_sub(self, b, i):
        if is_c(i) and isinstance(i[1], int) and not isinstance(i[1], bool):
            k = i[1]
            if b[0] in ("tuple", "list") and not any(x[0] == "star" for x in b[1]):
                if -len(b[1]) <= k < len(b[1]):
                    return b[1][k]
            if is_c(b) and isinstance(b[1], (tuple, bytes, str)):
                try:
                    return self._const_term(b[1][k])
                except IndexError:
                    pass
            if b[0] == "upd" and is_c(b[2]) and b[2][1] == k:
                return b[3]
        if b[0] == "upd" and b[2] == i:
            return b[3]
        if b[0] == "iter" and b[1][0] == "call" and b[1][1] == "ext:enumerate" and len(b[1][2]) == 1 and not b[1][3] and is_c(i) and i[1] in (0, 1) \
                and type(i[1]) is int:
            x = b[1][2][0]
            if i[1] == 1:
                return ("iter", x, b[2])  # the element enumerate() hands out is the element of what it enumerates
            if x[0] == "call" and x[1] == "ext:reversed" and len(x[2]) == 1 and x[2][0][0] == "call" and x[2][0][1] == "ext:range" and len(x[2][0][2]) == 1:
                # position p of reversed(range(n)) holds the value n - 1 - p: the position is (n - 1) - value
                n_ = x[2][0][2][0]
                return self.mk_bin("-", self.mk_bin("-", n_, C(1)), ("iter", x, b[2]))
        if b[0] == "slice" and is_c(i) and isinstance(i[1], int) and not isinstance(i[1], bool) and i[1] >= 0 and b[2] is not None \
                and not (is_c(b[2]) and isinstance(b[2][1], int) and b[2][1] < 0):
            # x[a:b][k] is x[a + k] (k >= 0, a not a negative literal; an index past the slice raises either way)
            return self.mk_sub(b[1], self.mk_bin("+", b[2], i) if i[1] else b[2])
        return ("sub", b, i)

    def mk_slice(self, b, lo, hi):
        if lo is not None and is_c(lo) and lo[1] in (0, None):
            lo = None
        if hi is not None and hi[0] == "bool" and hi[1] == "or" and len(hi[2]) == 2 and hi[2][1] == C(None) \
                and hi[2][0][0] == "un" and hi[2][0][1] == "-" and hi[2][0][2][0] == "len":
            # x[: -len(r) or None]: everything but the last len(r) items, and everything when r is empty
            hi = self.mk_bin("-", ("len", b), hi[2][0][2])
        if lo is None and hi is None:
            return b
        if b[0] in ("tuple", "list") and (lo is None or is_c(lo)) and (hi is None or is_c(hi)) and not any(x[0] == "star" for x in b[1]):
            return (b[0], tuple(b[1][(lo[1] if lo else None):(hi[1] if hi else None)]))
        if is_c(b) and isinstance(b[1], (tuple, bytes, str)) and (lo is None or is_c(lo)) and (hi is None or is_c(hi)):
            return C(b[1][(lo[1] if lo else None):(hi[1] if hi else None)])
        return ("slice", b, lo, hi)

    def _e_BinOp(self, e, f, st):
        l = self.ev(e.left, f, st)
        r = self.ev(e.right, f, st)
        op = type(e.op).__name__
        sym = {"Add": "+", "Sub": "-", "Mult": "*", "Mod": "%", "BitAnd": "&", "BitOr": "|", "BitXor": "^",
               "LShift": "<<", "RShift": ">>", "FloorDiv": "//", "Div": "/", "Pow": "**"}.get(op, op)
        return self.mk_bin(sym, l, r)

    def mk_bin(self, sym, l, r):
        if is_c(l) and is_c(r):
            try:
                a, b = l[1], r[1]
                if sym == "+":
                    return self._const_term(a + b)
                if sym == "-":
                    return C(a - b)
                if sym == "*" and (isinstance(a, int) or isinstance(b, int)):
                    res = a * b
                    if not hasattr(res, "__len__") or len(res) <= 4096:
                        return self._const_term(res)
                if sym == "%" and isinstance(a, int) and isinstance(b, int) and b:
                    return C(a % b)
                if sym == "<<" and isinstance(a, int) and 0 <= b < 600:
                    return C(a << b)
                if sym == "&" and isinstance(a, int):
                    return C(a & b)
            except Exception:
                pass
        if sym in ("+", "*", "&", "|", "^") and (_intlike(l) or _intlike(r)) and not (l[0] in ("tuple", "list") or r[0] in ("tuple", "list")):
            # integer arithmetic is commutative: canonical operand order (constants last)
            if is_c(l) and not is_c(r):
                l, r = r, l
            elif not is_c(l) and not is_c(r) and tstr(l) > tstr(r):
                l, r = r, l
        if sym in ("+", "-") and is_c(r) and isinstance(r[1], int) and not isinstance(r[1], bool) and l[0] == "bin" and l[1] in ("+", "-") \
                and is_c(l[3]) and isinstance(l[3][1], int) and not isinstance(l[3][1], bool):
            # (x - 1) + 1 is x;  (x + a) - b is x + (a - b)
            inner = l[3][1] if l[1] == "+" else -l[3][1]
            tot = inner + (r[1] if sym == "+" else -r[1])
            if tot == 0:
                return l[2]
            return ("bin", "+", l[2], C(tot)) if tot > 0 else ("bin", "-", l[2], C(-tot))
        if sym == "+":
            if l[0] in ("tuple", "list") and r[0] == l[0]:
                return (l[0], l[1] + r[1])
            if l[0] == "list" and is_c(r) and r[1] == []:
                return l
        if sym == "*" and l[0] == "list" and is_c(r) and isinstance(r[1], int) and 0 <= r[1] <= 64:
            return ("list", l[1] * r[1])
        return ("bin", sym, l, r)

    def _e_UnaryOp(self, e, f, st):
        v = self.ev(e.operand, f, st)
        if isinstance(e.op, ast.Not):
            if is_c(v):
                return C(not v[1])
            return ("un", "not", v)
        if isinstance(e.op, ast.USub):
            if is_c(v) and isinstance(v[1], int):
                return C(-v[1])
            return ("un", "-", v)
        return ("un", type(e.op).__name__, v)

    def _e_BoolOp(self, e, f, st):
        return ("bool", "and" if isinstance(e.op, ast.And) else "or", tuple(self.ev(v, f, st) for v in e.values))

    def _e_Compare(self, e, f, st):
        if len(e.ops) != 1:
            parts = []
            left = e.left
            for op, right in zip(e.ops, e.comparators):
                parts.append(self._cmp(op, self.ev(left, f, st), self.ev(right, f, st)))
                left = right
            return ("bool", "and", tuple(parts))
        return self._cmp(e.ops[0], self.ev(e.left, f, st), self.ev(e.comparators[0], f, st))

    def _cmp(self, op, l, r):
        sym = {"Eq": "==", "NotEq": "!=", "Lt": "<", "LtE": "<=", "Gt": ">", "GtE": ">=", "Is": "is",
               "IsNot": "isnot", "In": "in", "NotIn": "notin"}[type(op).__name__]
        if is_c(l) and is_c(r):
            # both sides are known values (a parameter specialised on its default, a sentinel compared with itself)
            a, b = l[1], r[1]
            if sym in ("is", "isnot") and (a is None or b is None or isinstance(a, bool) or isinstance(b, bool) or a is b
                                           or type(a).__name__ == "Sentinel" or type(b).__name__ == "Sentinel"):
                same = a is b or (a is None and b is None) or (type(a).__name__ == "Sentinel" and type(b).__name__ == "Sentinel" and a.name == b.name)
                return C(same if sym == "is" else not same)
            if sym in ("==", "!=") and type(a) is type(b) and isinstance(a, (int, bytes, str, bool, type(None))):
                return C((a == b) if sym == "==" else (a != b))
        if sym in ("is", "isnot") and r == C(None) and not is_c(l):
            # an integer (a length, arithmetic, the counter of enumerate(..)) is never None
            enum_idx = l[0] == "sub" and l[2] == C(0) and l[1][0] == "iter" and l[1][1][0] == "call" and l[1][1][1] == "ext:enumerate"
            if enum_idx or (_intlike(l) and l[0] != "c"):
                return C(sym == "isnot")
        # normalise: constant on the right for symmetric ops, flip for ordered ones
        if is_c(l) and not is_c(r):
            flip = {"==": "==", "!=": "!=", "<": ">", "<=": ">=", ">": "<", ">=": "<=", "is": "is", "isnot": "isnot"}
            if sym in flip:
                l, r, sym = r, l, flip[sym]
        return ("cmp", sym, l, r)

    def _e_IfExp(self, e, f, st):
        return ("ite", self.ev(e.test, f, st), self.ev(e.body, f, st), self.ev(e.orelse, f, st))

    def _e_Lambda(self, e, f, st):
        return unk("lambda")

    def _e_ListComp(self, e, f, st):
        return self._comp("listcomp", e, f, st)

    def _e_SetComp(self, e, f, st):
        return self._comp("setcomp", e, f, st)

    def _e_GeneratorExp(self, e, f, st):
        return self._comp("gen", e, f, st)

    def _e_DictComp(self, e, f, st):
        st2 = st.fork()
        srcs = []
        for i, g in enumerate(e.generators):
            it = self.ev(g.iter, f, st2)
            srcs.append(it)
            self._bind_target(g.target, ("iter", it, "c"), f, st2)
        return ("dictcomp", self.ev(e.key, f, st2), self.ev(e.value, f, st2), tuple(srcs),
                tuple(self.ev(c, f, st2) for g in e.generators for c in g.ifs))

    def _comp(self, tag, e, f, st):
        st2 = st.fork()
        srcs = []
        for i, g in enumerate(e.generators):
            it = self.ev(g.iter, f, st2)
            srcs.append(it)
            self._bind_target(g.target, ("iter", it, "c"), f, st2)
        conds = tuple(self.ev(c, f, st2) for g in e.generators for c in g.ifs)
        return (tag, self.ev(e.elt, f, st2), tuple(srcs), conds)

    def _e_Dict(self, e, f, st):
        if not e.keys:
            return ("dict", ())
        return ("dict", tuple((self.ev(k, f, st) if k is not None else None, self.ev(v, f, st)) for k, v in zip(e.keys, e.values)))

    def _e_Yield(self, e, f, st):
        return unk("yield")

    def _e_YieldFrom(self, e, f, st):
        return unk("yieldfrom")

    def _e_NamedExpr(self, e, f, st):
        v = self.ev(e.value, f, st)
        self._bind_target(e.target, v, f, st)
        return v

    def callee_key(self, call, f):
        tgs = self.R.resolve_call(call, f, count=False)
        return tgs

    def _e_Call(self, e, f, st):
        # pending case-split result for this call node?
        pre = st.env.get(("callres", id(e)))
        if pre is not None:
            return pre
        args = tuple(self.ev(a, f, st) for a in e.args)
        kws = tuple((k.arg, self.ev(k.value, f, st)) for k in e.keywords)
        tgs = self.R.resolve_call(e, f, count=False)
        if isinstance(e.func, ast.Name) and len(tgs) > 1:
            # a call through a local that holds a function (`fn = a if c else b; fn(x)`): on this path the
            # local has one value
            cur = st.env.get(e.func.id)
            if cur is not None and cur[0] == "fn":
                one = [t for t in tgs if t.kind == "def" and t.func.qual == cur[1]]
                if one:
                    tgs = one
        tg = tgs[0]
        if isinstance(e.func, ast.Name) and e.func.id == "len" and len(args) == 1 and tg.kind == "ext":
            return self.mk_len(args[0][1] if args[0][0] == "starlist" else args[0])
        if tg.kind == "ext" and tg.name in ("tuple", "list") and len(args) == 1 and args[0][0] == "starlist" and not kws:
            # tuple(rest) after `head, *rest = key`: the tail of the key (keys are tuples of nibbles, VAL4)
            return args[0][1]
        if tg.kind == "def" and len(tgs) == 1:
            inl = self._inline_new_helper(e, tg, f, st)
            if inl is not None:
                return inl
        if tg.kind == "def":
            g = tg.func
            # bind receiver as first argument for methods called on an instance
            if tg.recv is not None:
                args = (self.ev(tg.recv, f, st),) + args
            elif g.cls is not None and g.is_classmethod:
                args = (("cls", g.cls.qual),) + args
            if len(tgs) > 1:
                return ("call", "|".join(sorted(t.func.qual for t in tgs)), args, kws)
            return ("call", g.qual, args, kws)
        if tg.kind == "ctor":
            return ("call", "ctor:" + tg.cls.qual, args, kws)
        if tg.kind == "ext":
            if tg.name == "cast" or tg.name == "typing.cast":
                return args[1] if len(args) == 2 else unk("cast")
            if tg.name in ("tuple", "list") and len(args) == 1 and args[0][0] in ("tuple", "list"):
                return (tg.name, args[0][1])
            if tg.name == "tuple" and not args:
                return ("tuple", ())
            if tg.name == "bytes" and len(args) == 1 and args[0][0] in ("list", "tuple") and all(is_c(x) for x in args[0][1]):
                try:
                    return C(bytes(x[1] for x in args[0][1]))
                except Exception:
                    pass
            if any(a[0] == "call" and a[1] == "ext:iter" for a in args):
                # a builtin that consumes an explicit iterator object is not a function of its argument:
                # `any(it) and any(it)` asks two different questions.  The call site keeps the results apart.
                kws = kws + (("@", (e.lineno, e.col_offset)),)
            if tg.name == "map" and len(args) == 2 and not kws and args[0][0] in ("fn", "cls"):
                # map(f, xs) is (f(x) for x in xs)
                el = ("iter", args[1], "c")
                head = ("call", "ctor:" + args[0][1], (el,), ()) if args[0][0] == "cls" else ("call", args[0][1], (el,), ())
                return ("gen", head, (args[1],), ())
            if tg.name == "map" and len(args) == 3 and not kws and args[0][0] == "attr" and args[0][1] == ("ext", "operator") \
                    and args[0][2] in ("eq", "ne", "lt", "le", "gt", "ge"):
                # map(operator.eq, xs, ys) is (x == y for x, y in zip(xs, ys))
                z = ("call", "ext:zip", (args[1], args[2]), ())
                el = ("iter", z, "c")
                op = {"eq": "Eq", "ne": "NotEq", "lt": "Lt", "le": "LtE", "gt": "Gt", "ge": "GtE"}[args[0][2]]
                return ("gen", self._cmp(getattr(ast, op)(), ("sub", el, C(0)), ("sub", el, C(1))), (z,), ())
            if tg.name == "collections.deque" and len(args) == 1 and not kws and args[0][0] in ("list", "tuple"):
                return ("list", args[0][1])  # a deque built from a list display: append / extend / pop() behave like the list's
            if tg.name == "list" and len(args) == 1 and not kws and args[0][0] == "gen":
                return ("listcomp",) + args[0][1:]  # list(<generator expression>) is the list comprehension
            return ("call", "ext:" + tg.name, args, kws)
        if tg.kind == "cmeth":
            recv = self.ev(tg.recv, f, st)
            if tg.meth == "join" and recv in (C(b""), C("")) and len(args) == 1 and args[0][0] in ("tuple", "list") and args[0][1] \
                    and not any(x[0] == "star" for x in args[0][1]):
                # b"".join((a, b, c)) is a + b + c
                acc = args[0][1][0]
                for x in args[0][1][1:]:
                    acc = self.mk_bin("+", acc, x)
                return acc
            return ("call", "m:" + tg.meth, (recv,) + args, kws)
        return ("call", "opaque:%s" % tg.name, args, kws)

    def _inline_new_helper(self, call, tg, f, st):
        """A helper that did not exist when the rules were written and has a single, unconditional
        return is replaced by its return term (extract-helper refactorings keep the terms stable)."""
        from .known_funcs import KNOWN_FUNCS
        g = tg.func
        if g.qual in KNOWN_FUNCS or g.is_generator or g.qual in self._in_progress:
            return None
        key = ("inl", g.qual)
        memo = self.__dict__.setdefault("_inl_memo", {})
        if key not in memo:
            memo[key] = None
            try:
                cases = self.summary(g, None)
            except Exception:
                cases = None
            if cases and len(cases) == 1:
                ret, cf = cases[0]
                if not (cf.kind or cf.truth or cf.eq or cf.ne or cf.none or cf.inset or cf.offs) and not any(v != (0, INF) for v in cf.len.values()):
                    memo[key] = ret
            elif cases and len({c_[0] for c_ in cases}) == 1 and not any(isinstance(n_, (ast.Raise, ast.Assert)) for n_ in ast.walk(g.node)):
                # several paths, one value (a fast path and a slow path that compute the same thing), no refusal
                memo[key] = cases[0][0]
        ret = memo[key]
        if ret is None:
            return None
        amap = {}
        params = list(g.params)
        if tg.recv is not None and params and g.cls is not None and not g.is_static:
            amap[params[0]] = self.ev(tg.recv, f, st)
            params = params[1:]
        elif g.cls is not None and not g.is_static and params:
            params = params[1:]
        for pn, a in zip(params, call.args):
            if isinstance(a, ast.Starred):
                return None
            amap[pn] = self.ev(a, f, st)
        for k in call.keywords:
            if k.arg is None:
                return None
            amap[k.arg] = self.ev(k.value, f, st)
        for pn, d in g.defaults().items():
            if pn not in amap:
                v = self.P.fold(g.module, d)
                amap[pn] = self._const_term(v) if v is not UNKNOWN else unk("default")
        recv = amap.get(g.self_name) if g.self_name else None
        return subst(ret, amap, recv)

    def mk_len(self, x):
        if is_c(x) and hasattr(x[1], "__len__"):
            return C(len(x[1]))
        if x[0] in ("tuple", "list") and not any(i[0] == "star" for i in x[1]):
            return C(len(x[1]))
        return ("len", x)

    # ------------------------------------------------------------------
    # derived abstract values
    # ------------------------------------------------------------------
    def len_of(self, t, facts, depth=0):
        """-> (lo, hi) interval for len(t)."""
        lo, hi = 0, INF
        if depth > 12:
            return facts.len.get(t, (0, INF))
        h = t[0]
        if h == "c" and hasattr(t[1], "__len__"):
            lo = hi = len(t[1])
        elif h in ("tuple", "list"):
            n = 0
            nhi = 0
            for x in t[1]:
                if x[0] == "star":
                    a, b = self.len_of(x[1], facts, depth + 1)
                    n += a
                    nhi = min(INF, nhi + b)
                else:
                    n += 1
                    nhi += 1
            lo, hi = n, nhi
        elif h == "slice":
            blo, bhi = self.len_of(t[1], facts, depth + 1)
            a, b = t[2], t[3]
            if b is None and a is not None and is_c(a) and isinstance(a[1], int) and a[1] >= 0:
                lo, hi = max(blo - a[1], 0), (max(bhi - a[1], 0) if bhi < INF else INF)
            elif a is None and b is not None and is_c(b) and isinstance(b[1], int):
                if b[1] >= 0:
                    lo, hi = min(blo, b[1]), min(bhi, b[1])
                else:
                    lo, hi = max(blo + b[1], 0), (max(bhi + b[1], 0) if bhi < INF else INF)
            else:
                lo, hi = 0, bhi
        elif h == "call":
            key = t[1]
            if key in LEN_PRESERVING and len(t[2]) == 1:
                lo, hi = self.len_of(t[2][0], facts, depth + 1)
            elif key == "trie.utils.nibbles:bytes_to_nibbles" and len(t[2]) == 1:
                a, b = self.len_of(t[2][0], facts, depth + 1)
                lo, hi = 2 * a, (2 * b if b < INF else INF)
        elif h == "bin" and t[1] == "+":
            a, b = self.len_of(t[2], facts, depth + 1)
            c, d = self.len_of(t[3], facts, depth + 1)
            lo, hi = a + c, (b + d if b < INF and d < INF else INF)
        elif h == "upd":
            lo, hi = self.len_of(t[1], facts, depth + 1)
        elif h == "ite":
            a, b = self.len_of(t[2], facts, depth + 1)
            c, d = self.len_of(t[3], facts, depth + 1)
            lo, hi = min(a, c), max(b, d)
        f = facts.len.get(t)
        if f:
            lo, hi = max(lo, f[0]), min(hi, f[1])
        return lo, hi

    def kind_of(self, t, facts, depth=0):
        ks = ALLK
        h = t[0]
        if h == "c":
            if t[1] == b"":
                ks = frozenset(["BLANK"])
        elif h == "list":
            lo, hi = self.len_of(t, facts)
            if lo == hi == 2:
                ks = frozenset(["LEAF", "EXT"])
            elif lo == hi == 17:
                ks = frozenset(["BRANCH"])
            else:
                ks = ALLK - frozenset(["BLANK"])
        elif h == "upd" and depth < 10:
            ks = self.kind_of(t[1], facts, depth + 1)
        f = facts.kind.get(t)
        if f:
            ks = ks & f
        if t in facts.len:
            lo, hi = facts.len[t]
            if lo > 0:
                ks = ks - frozenset(["BLANK"])
        if t in facts.eq and facts.eq[t] == b"":
            ks = ks & frozenset(["BLANK"])
        elif b"" in facts.ne.get(t, ()):
            ks = ks - frozenset(["BLANK"])
        return ks

    def refine_len(self, t, lo, hi, facts):
        clo, chi = self.len_of(t, facts)
        nlo, nhi = max(clo, lo), min(chi, hi)
        if nlo > nhi:
            facts.bad = "len of %s: [%s,%s] vs [%s,%s]" % (short(t), clo, chi, lo, hi)
            return False
        return facts.set_len(t, nlo, nhi)

    def refine_kind(self, t, ks, facts):
        cur = self.kind_of(t, facts)
        new = cur & frozenset(ks)
        if not new:
            facts.bad = "kind of %s: %s vs %s" % (short(t), sorted(cur), sorted(ks))
            return False
        return facts.set_kind(t, new)

    # ------------------------------------------------------------------
    # assume
    # ------------------------------------------------------------------
    def assume(self, t, pol, facts):
        """Refine facts by `t` evaluating to truthiness `pol`; -> False if contradictory."""
        h = t[0]
        if h == "c":
            return bool(t[1]) == pol
        if h == "un" and t[1] == "not":
            return self.assume(t[2], not pol, facts)
        if h == "bool":
            if (t[1] == "and") == pol:
                return all(self.assume(x, pol, facts) for x in t[2])
            return facts.set_truth(t, pol)
        if not facts.set_truth(t, pol):
            return False
        if h == "cmp":
            return self._assume_cmp(t[1], t[2], t[3], pol, facts)
        if h == "len":
            return self.refine_len(t[1], 1, INF, facts) if pol else self.refine_len(t[1], 0, 0, facts)
        if h == "call":
            key = t[1]
            if key in CLASSIFIERS and t[2]:
                ks = frozenset(CLASSIFIERS[key])
                return self.refine_kind(t[2][0], ks if pol else ALLK - ks, facts)
            if key == "ext:isinstance":
                return True
            if key in ("ext:any", "ext:all", "ext:bool", "ext:isinstance", "ext:callable"):
                return True
            if key.startswith("trie.") and key.split(":")[-1] in ("key_starts_with", "is_nibbles_terminated"):
                if key.endswith("key_starts_with") and pol and len(t[2]) == 2:
                    # full_key starts with partial_key => len(full) >= len(partial)
                    plo, _ = self.len_of(t[2][1], facts)
                    if plo > 0 and not self.refine_len(t[2][0], plo, INF, facts):
                        return False
                return True
        if h == "slice" and t[3] is None and t[2] is not None and not is_c(t[2]):
            # x[base + k:] is non-empty  <=>  len(x) - base >= k + 1
            base, k = _lin(t[2])
            if base is not None:
                ok = facts.set_off(t[1], base, k + 1, INF) if pol else facts.set_off(t[1], base, -INF, k)
                if not ok:
                    return False
        # generic truthiness of a sequence-like value
        if h in ("p", "sub", "slice", "attr", "upd", "iter", "tuple", "list") or (h == "call" and self._seq_like(t)):
            lo, hi = self.len_of(t, facts)
            if pol:
                if hi == 0 and h in ("tuple", "list", "slice"):
                    return False
                if h in ("tuple", "list"):
                    return lo >= 1 or hi >= 1
                # unknown type: may be int / object; only refine when known sequence
                if self._seq_like(t) or t in facts.len or t in facts.kind:
                    return self.refine_len(t, 1, INF, facts)
                facts.len.setdefault(t, (0, INF))
                facts.eq.pop(t, None) if False else None
                return self._soft_nonempty(t, facts)
            else:
                if h in ("tuple", "list") and lo >= 1:
                    return False
                if self._seq_like(t) or t in facts.len or t in facts.kind:
                    return self.refine_len(t, 0, 0, facts)
                return self._soft_empty(t, facts)
        return True

    def _soft_nonempty(self, t, facts):
        # parameter / subscript of unknown type used as a condition: record as a
        # sequence fact too (all uses in this package are bytes / tuples / ints
        # whose len is never asked when they are ints)
        return self.refine_len(t, 1, INF, facts)

    def _soft_empty(self, t, facts):
        return self.refine_len(t, 0, 0, facts)

    def _seq_like(self, t):
        if t[0] in ("slice", "tuple", "list", "upd"):
            return True
        if t[0] == "call":
            k = t[1]
            return k in LEN_PRESERVING or k.endswith(("bytes_to_nibbles", "extract_key", "decode_nibbles", "encode_to_bin"))
        return False

    def _assume_cmp(self, op, l, r, pol, facts):
        neg = {"==": "!=", "!=": "==", "<": ">=", "<=": ">", ">": "<=", ">=": "<", "is": "isnot", "isnot": "is",
               "in": "notin", "notin": "in"}
        if not pol:
            op = neg[op]
        # both constants
        if is_c(l) and is_c(r):
            try:
                a, b = l[1], r[1]
                res = {"==": lambda: a == b, "!=": lambda: a != b, "<": lambda: a < b, "<=": lambda: a <= b,
                       ">": lambda: a > b, ">=": lambda: a >= b, "is": lambda: a is b or a == b,
                       "isnot": lambda: not (a is b or a == b), "in": lambda: a in b,
                       "notin": lambda: a not in b}[op]()
                return bool(res)
            except Exception:
                return True
        if op in ("is", "isnot") and is_c(r) and r[1] is None:
            return facts.set_none(l, op == "is")
        if op in ("is", "isnot"):
            op = "==" if op == "is" else "!="
        if op in ("in", "notin") and r[0] in ("tuple", "list", "set") and r[1] and all(is_c(x) for x in r[1]):
            r = C(tuple(x[1] for x in r[1]))  # a display of constants is a constant collection
        if is_c(r):
            v = r[1]
            if op in ("==", "!="):
                return self._assume_eq(l, v, op == "==", facts)
            if op in ("in", "notin") and isinstance(v, (frozenset, tuple)):
                vals = list(v)
                if l[0] == "call" and l[1] == Q_GET_NODE_TYPE and l[2]:
                    ks = frozenset(self.kval[x] for x in vals if x in self.kval)
                    return self.refine_kind(l[2][0], ks if op == "in" else ALLK - ks, facts)
                if op == "in":
                    if l in facts.eq:
                        return any(_ceq(facts.eq[l], x) for x in vals)
                    if len(vals) == 1:
                        return self._assume_eq(l, vals[0], True, facts)
                    try:
                        return facts.set_inset(l, vals)
                    except TypeError:
                        return True
                ok = True
                for x in vals:
                    ok = ok and self._assume_eq(l, x, False, facts)
                return ok
            if isinstance(v, int) and not isinstance(v, bool):
                tgt = l[1] if l[0] == "len" else None
                if tgt is not None:
                    if op == "<":
                        return self.refine_len(tgt, 0, v - 1, facts) if v >= 1 else False
                    if op == "<=":
                        return self.refine_len(tgt, 0, v, facts) if v >= 0 else False
                    if op == ">":
                        return self.refine_len(tgt, v + 1, INF, facts)
                    if op == ">=":
                        return self.refine_len(tgt, max(v, 0), INF, facts)
            return True
        # len(x) compared with a symbolic integer base + k: difference bounds
        if l[0] == "len" and r[0] != "len":
            base, k = _lin(r)
            if base is not None:
                x = l[1]
                if op == "<":
                    return facts.set_off(x, base, -INF, k - 1)
                if op == "<=":
                    return facts.set_off(x, base, -INF, k)
                if op == ">":
                    return facts.set_off(x, base, k + 1, INF)
                if op == ">=":
                    return facts.set_off(x, base, k, INF)
                if op == "==":
                    return facts.set_off(x, base, k, k)
                if op == "!=":
                    lo, hi = facts.offs.get((x, base), (-INF, INF))
                    if lo == hi == k:
                        return False
                    if lo == k:
                        return facts.set_off(x, base, k + 1, INF)
                    if hi == k:
                        return facts.set_off(x, base, -INF, k - 1)
                    return True
        if r[0] == "len" and l[0] != "len":
            flip = {"<": ">", "<=": ">=", ">": "<", ">=": "<=", "==": "==", "!=": "!="}
            if op in flip:
                return self._assume_cmp(flip[op], r, l, True, facts)
        # len(x) compared with len(y): use intervals for contradiction only
        if l[0] == "len" and r[0] == "len":
            a, b = self.len_of(l[1], facts)
            c, d = self.len_of(r[1], facts)
            if op == "<" and a >= d:
                return False
            if op == "<=" and a > d:
                return False
            if op == ">" and b <= c:
                return False
            if op == ">=" and b < c:
                return False
            if op == "==" and (b < c or a > d):
                return False
            return True
        if op in ("==", "!="):
            # term == term : if one side has a known constant value, use it
            for a, b in ((l, r), (r, l)):
                if b in facts.eq:
                    return self._assume_eq(a, facts.eq[b], op == "==", facts)
            # sequence equality implies equal kinds / lens
            if op == "==":
                lk, rk = self.kind_of(l, facts), self.kind_of(r, facts)
                if lk != ALLK or rk != ALLK:
                    if not (lk & rk):
                        return False
                a, b = self.len_of(l, facts)
                c, d = self.len_of(r, facts)
                if b < c or a > d:
                    return False
                if (c, d) != (0, INF) and not self.refine_len(l, c, d, facts):
                    return False
                if (a, b) != (0, INF) and not self.refine_len(r, a, b, facts):
                    return False
        return True

    def _assume_eq(self, l, v, eq, facts):
        if l[0] == "call" and l[1] == Q_GET_NODE_TYPE and l[2] and v in self.kval:
            ks = frozenset([self.kval[v]])
            return self.refine_kind(l[2][0], ks if eq else ALLK - ks, facts)
        if l[0] == "len" and isinstance(v, int) and not isinstance(v, bool):
            if eq:
                return self.refine_len(l[1], v, v, facts)
            lo, hi = self.len_of(l[1], facts)
            if lo == hi == v:
                return False
            if v == 0:
                return self.refine_len(l[1], 1, INF, facts)
            if lo == v:
                return self.refine_len(l[1], v + 1, INF, facts)
            if hi == v:
                return self.refine_len(l[1], lo, v - 1, facts)
            return True
        if v == b"" or v == () or v == []:
            if eq:
                lo, hi = self.len_of(l, facts)
                if lo > 0:
                    return False
                if v == b"" and "BLANK" not in self.kind_of(l, facts):
                    return False
                ok = self.refine_len(l, 0, 0, facts)
                return ok and facts.set_eq(l, v)
            lo, hi = self.len_of(l, facts)
            if hi == 0 and (l[0] in ("tuple", "list", "c")):
                return False
            if v == b"" and self.kind_of(l, facts) == frozenset(["BLANK"]):
                return False
            return facts.set_ne(l, v)
        if eq:
            if hasattr(v, "__len__") and not isinstance(v, (str,)):
                if not self.refine_len(l, len(v), len(v), facts):
                    return False
            return facts.set_eq(l, v)
        return facts.set_ne(l, v)

    # ------------------------------------------------------------------
    # running a path
    # ------------------------------------------------------------------
    def _bind_target(self, tgt, val, f, st):
        if isinstance(tgt, ast.Name):
            st.env[tgt.id] = val
        elif isinstance(tgt, (ast.Tuple, ast.List)):
            n = len(tgt.elts)
            for i, x in enumerate(tgt.elts):
                if isinstance(x, ast.Starred):
                    if i == n - 1 and not any(isinstance(y, ast.Starred) for y in tgt.elts[:i]):
                        # head, *rest = seq: rest holds seq[i:] (as a list; tuple(rest) of a tuple is that slice)
                        self._bind_target(x.value, ("starlist", self.mk_slice(val, C(i), None)), f, st)
                    else:
                        self._bind_target(x.value, unk("star"), f, st)
                else:
                    self._bind_target(x, self.mk_sub(val, C(i)), f, st)
            if val[0] not in ("tuple", "list"):
                # unpacking fixes the length of the source
                if not any(isinstance(x, ast.Starred) for x in tgt.elts):
                    st.facts.set_len(val, n, n)
        elif isinstance(tgt, ast.Subscript):
            base = tgt.value
            bt = self.ev(base, f, st)
            if isinstance(tgt.slice, ast.Slice):
                new = unk("slice-store")
            else:
                new = ("upd", bt, self.ev(tgt.slice, f, st), val)
            if isinstance(base, ast.Name):
                st.env[base.id] = new
            else:
                st.attrs[ast.unparse(base)] = new
        elif isinstance(tgt, ast.Attribute):
            st.attrs[ast.unparse(tgt)] = val
        elif isinstance(tgt, ast.Starred):
            self._bind_target(tgt.value, unk("star"), f, st)

    @staticmethod
    def _event_exprs(ev):
        """expressions of an event that rules evaluate afterwards"""
        n = ev.node
        k = ev.k
        out = []
        if k == "call" and isinstance(n, ast.Call):
            out += [a.value if isinstance(a, ast.Starred) else a for a in n.args] + [kw.value for kw in n.keywords]
            if isinstance(n.func, ast.Attribute):
                out.append(n.func.value)
        elif k in ("yield", "yieldfrom") and isinstance(n, (ast.Yield, ast.YieldFrom)) and n.value is not None:
            out.append(n.value)
        elif k == "src" and isinstance(n, ast.Subscript):
            out += [n.value] + ([n.slice] if not isinstance(n.slice, ast.Slice) else [])
        elif k == "stmt" and isinstance(n, (ast.Assign, ast.AugAssign, ast.AnnAssign)) and n.value is not None:
            out.append(n.value)
            for t in (n.targets if isinstance(n, ast.Assign) else [n.target]):
                if isinstance(t, ast.Subscript):
                    out += [t.value] + ([t.slice] if not isinstance(t.slice, ast.Slice) else [])
        elif k == "raise" and isinstance(n, ast.Raise) and isinstance(n.exc, ast.Call):
            out += list(n.exc.args)
        return out

    def step(self, ev, f, st):
        """Apply one event; -> False when the path became infeasible."""
        k = ev.k
        if ev.a in ("ok", None) or k in ("stmt", "yield", "yieldfrom", "raise"):
            for x in self._event_exprs(ev):
                if id(x) not in st.cterms and not isinstance(x, ast.Constant):
                    try:
                        st.cterms[id(x)] = self.ev(_as_load(x) if isinstance(getattr(x, "ctx", None), ast.Store) else x, f, st)
                    except Exception:
                        pass
        if k == "assume":
            t = self.ev(ev.node, f, st)
            # conditions of `assert` statements refine the facts but are kept apart from the guards: a rule that
            # asks "under exactly which conditions does this happen" is not disturbed by a declared invariant
            if is_c(t):
                # a test on a constant (a flag bound by an inlined call) is decided here and tells nothing
                if bool(t[1]) != bool(ev.a):
                    return False
                st.events.append(ev)
                return True
            (st.alog if ev.b == "assert" else st.log).append((t, ev.a, ev.node))
            if not self.assume(t, ev.a, st.facts):
                return False
        elif k == "stmt":
            n = ev.node
            if isinstance(n, ast.Assign):
                v = self.ev(n.value, f, st)
                for t in n.targets:
                    self._bind_target(t, v, f, st)
            elif isinstance(n, ast.AnnAssign) and n.value is not None:
                self._bind_target(n.target, self.ev(n.value, f, st), f, st)
            elif isinstance(n, ast.AugAssign):
                old = self.ev(_as_load(n.target), f, st)
                sym = {"Add": "+", "Sub": "-", "Mult": "*", "LShift": "<<", "RShift": ">>", "BitOr": "|", "BitAnd": "&"}.get(type(n.op).__name__, "?")
                self._bind_target(n.target, self.mk_bin(sym, old, self.ev(n.value, f, st)), f, st)
            elif isinstance(n, ast.Delete):
                pass
        elif k == "bind":
            if ev.a == "for":
                it = self.ev(ev.b, f, st)
                self._bind_target(ev.node, ("iter", it, len([e for e in st.events if e.k == "bind" and e.node is ev.node])), f, st)
            elif ev.a == "exc":
                if ev.node.name:
                    st.env[ev.node.name] = ("exc", ev.b, id(ev.node))
            elif ev.a == "with":
                self._bind_target(ev.node, ("with", self.ev(ev.b, f, st)), f, st)
        elif k == "src" and isinstance(ev.node, ast.Subscript) and ev.a in ("ok", "KeyError") and id(ev.node) in self._keyerror_guarded(f):
            # `try: v = d[k]  except KeyError: ..` asks the question `k in d`: the two outcomes of the read are
            # logged as that test, so that it reads like `if k in d: v = d[k] else: ..`
            try:
                t = ("cmp", "in", self.ev(ev.node.slice, f, st), self.ev(ev.node.value, f, st))
                st.log.append((t, ev.a == "ok", ev.node))
            except Exception:
                pass
        elif k == "return":
            st.ret = self.ev(ev.node.value, f, st) if ev.node.value is not None else C(None)
        if k == "call" and ev.a == "ok" and isinstance(ev.node, ast.Call) and id(ev.node) not in st.cterms:
            try:
                st.cterms[id(ev.node)] = self.ev(ev.node, f, st)
            except Exception:
                pass
        if k == "call" and ev.a == "ok" and isinstance(ev.node, ast.Call) and isinstance(ev.node.func, ast.Attribute) \
                and isinstance(ev.node.func.value, ast.Name) and ev.node.func.attr in MUTATING_METHODS:
            # x.append(..) / x.pop() on a local that holds a literal container: its size and truthiness are no
            # longer those of the literal
            nm = ev.node.func.value.id
            cur = st.env.get(nm)
            if cur is not None and cur[0] in ("list", "dict", "set", "listcomp", "mut"):
                base = cur[1] if cur[0] == "mut" else cur
                st.env[nm] = ("mut", base, len(st.events))
        st.events.append(ev)
        return True

    def _keyerror_guarded(self, f):
        """ids of the subscript reads of f that sit in a try body whose handlers catch KeyError"""
        memo = self.__dict__.setdefault("_kg_memo", {})
        key = (f.qual, id(f.node))
        if key not in memo:
            out = set()
            for n in ast.walk(f.node):
                if isinstance(n, ast.Try) and any(h.type is not None and "KeyError" in ast.unparse(h.type) for h in n.handlers):
                    for b in n.body:
                        for x in ast.walk(b):
                            if isinstance(x, ast.Subscript) and isinstance(x.ctx, ast.Load) and not isinstance(x.slice, ast.Slice):
                                out.add(id(x))
            memo[key] = out
        return memo[key]

    def run(self, f, path, init=None, split=None):
        """Run one path; with `split`, calls to functions that have case summaries fork
        the state.  -> list of feasible States."""
        states = [init.fork() if init is not None else State()]
        for ev in path.events:
            nxt = []
            for st in states:
                if split and ev.k == "call" and ev.a == "ok" and isinstance(ev.node, ast.Call):
                    cases = self._cases_for_call(ev.node, f, st, split)
                    if cases is not None:
                        for ret, cf in cases:
                            s2 = st.fork()
                            if not s2.facts.merge_from(cf):
                                continue
                            s2.env[("callres", id(ev.node))] = ret
                            s2.events.append(ev)
                            nxt.append(s2)
                        continue
                if self.step(ev, f, st):
                    nxt.append(st)
            states = nxt
            if not states:
                break
        for st in states:
            st.done = True
        return states

    # ------------------------------------------------------------------
    # case summaries
    # ------------------------------------------------------------------
    def _cases_for_call(self, call, f, st, split):
        tgs = self.R.resolve_call(call, f, count=False)
        if len(tgs) != 1 or tgs[0].kind != "def":
            return None
        g = tgs[0].func
        if g.qual not in split:
            return None
        summ = self.summary(g, split)
        if summ is None:
            return None
        # substitution map param -> arg term
        amap = {}
        params = list(g.params)
        if tgs[0].recv is not None and params:
            amap[params[0]] = self.ev(tgs[0].recv, f, st)
            params = params[1:]
        elif g.cls is not None and not g.is_static and params:
            params = params[1:]
        for pn, a in zip(params, call.args):
            if isinstance(a, ast.Starred):
                return None
            amap[pn] = self.ev(a, f, st)
        for k in call.keywords:
            if k.arg is None:
                return None
            amap[k.arg] = self.ev(k.value, f, st)
        for pn, d in g.defaults().items():
            if pn not in amap:
                v = self.P.fold(g.module, d)
                amap[pn] = self._const_term(v) if v is not UNKNOWN else unk("default")
        recv = amap.get(g.self_name) if g.self_name else None
        out = []
        for ret, cf in summ:
            r2 = subst(ret, amap, recv)
            f2 = Facts()
            for t, ks in cf.kind.items():
                f2.kind[subst(t, amap, recv)] = ks
            for t, iv in cf.len.items():
                f2.len[subst(t, amap, recv)] = iv
            for t, v in cf.truth.items():
                f2.truth[subst(t, amap, recv)] = v
            for t, v in cf.eq.items():
                f2.eq[subst(t, amap, recv)] = v
            for t, v in cf.ne.items():
                f2.ne[subst(t, amap, recv)] = set(v)
            for t, v in cf.none.items():
                f2.none[subst(t, amap, recv)] = v
            for t, v in cf.inset.items():
                f2.inset[subst(t, amap, recv)] = v
            for (x, b), v in cf.offs.items():
                f2.offs[(subst(x, amap, recv), subst(b, amap, recv))] = v
            out.append((r2, f2))
        return out

    def summary(self, g, split, unroll=1):
        """Return-site cases [(ret term, Facts)] of g, or None (recursive / too big)."""
        key = g.qual
        if key in self._summ:
            return self._summ[key]
        if key in self._in_progress:
            return None
        self._in_progress.add(key)
        try:
            paths = self.ctx.X.paths(g, unroll)
            cases = []
            for p in paths:
                if p.exit[0] == "raise" or p.cut:
                    continue
                for st in self.run(g, p, split=split):
                    ret = st.ret if st.ret is not None else C(None)
                    cases.append((ret, st.facts))
            if len(cases) > 64:
                cases = None
            self._summ[key] = cases
            return cases
        finally:
            self._in_progress.discard(key)


def _intlike(t):
    if is_c(t):
        return isinstance(t[1], int) and not isinstance(t[1], bool)
    if t[0] == "len":
        return True
    if t[0] == "bin" and t[1] in ("-", "%", "&", "|", "^", "<<", ">>", "//", "**"):
        return True
    if t[0] == "bin" and t[1] in ("+", "*"):
        return _intlike(t[2]) or _intlike(t[3])
    if t[0] == "call" and t[1] in ("ext:eth_utils.to_int", "ext:len", "ext:min", "ext:max", "ext:int", "trie.utils.nodes:get_common_prefix_length"):
        return True
    return False


def linform(t):
    """Integer term as a linear form: ({atom: coeff}, const)."""
    if is_c(t):
        if isinstance(t[1], int) and not isinstance(t[1], bool):
            return {}, t[1]
        return None
    if t[0] == "bin" and t[1] in ("+", "-"):
        a, b = linform(t[2]), linform(t[3])
        if a is None or b is None:
            return None
        sign = 1 if t[1] == "+" else -1
        d = dict(a[0])
        for k, v in b[0].items():
            d[k] = d.get(k, 0) + sign * v
        return {k: v for k, v in d.items() if v != 0}, a[1] + sign * b[1]
    if t[0] == "un" and t[1] == "-":
        a = linform(t[2])
        if a is None:
            return None
        return {k: -v for k, v in a[0].items()}, -a[1]
    if t[0] == "bin" and t[1] == "*":
        for x, y in ((t[2], t[3]), (t[3], t[2])):
            if is_c(x) and isinstance(x[1], int):
                a = linform(y)
                if a is not None:
                    return {k: v * x[1] for k, v in a[0].items() if v * x[1] != 0}, a[1] * x[1]
    if t[0] in ("call", "p", "sub", "attr", "iter", "bin", "g", "len", "un"):
        return {t: 1}, 0
    return None


def _lin(t):
    """term = base + k  ->  (base, k): base is a canonical (hashable) linear combination of atoms"""
    lf = linform(t)
    if lf is None or not lf[0]:
        return None, 0
    items = lf[0]
    if len(items) == 1:
        (atom, coeff), = items.items()
        if coeff == 1:
            return atom, lf[1]
    return ("lin", tuple(sorted(items.items(), key=lambda kv: tstr(kv[0])))), lf[1]


def _as_load(t):
    import copy
    t2 = copy.copy(t)
    t2.ctx = ast.Load()
    return t2


def subst(t, amap, recv=None):
    if not isinstance(t, tuple) or not t:
        return t
    h = t[0]
    if h == "p":
        return amap.get(t[1], t)
    if h == "self":
        return recv if recv is not None else t
    if h in ("c", "unk", "fn", "cls", "ext", "g"):
        return t
    return tuple(subst(x, amap, recv) if isinstance(x, tuple) else x for x in t)
