"""Effect analysis on resolved state designators.

A *location* is (root, fields):
   root = ('self', Class) | ('param', name) | ('fresh', name, Class|ctype)
        | ('local', name) | ('global', name) | ('unknown',)
   fields = tuple of attribute names.

Primitive effects are recognised on locations, not on names; local aliases
(``d = self.db``) are followed, and the fields of objects built by a resolved
constructor alias the constructor's arguments (``ScratchDB(self.db)`` makes
``scratch_db.wrapped_db`` an alias of ``self.db``).
"""
import ast

from .model import walk_shallow, AnalysisError
from . import spec


class Effect:
    __slots__ = ("op", "loc", "state", "func", "node", "key", "value", "meth", "chain", "guards")

    def __init__(self, op, loc, state, func, node, key=None, value=None, meth=None, chain=()):
        self.op = op  # W (item store) D (item delete) R (item read) SET (attr store) M (other mutation)
        self.loc = loc
        self.state = state  # DB ROOT RC PEND CACHE WDB FOG PRF CFG FCACHE ATTR:<name> or None
        self.func = func
        self.node = node
        self.key = key
        self.value = value
        self.meth = meth
        self.chain = chain  # call sites through which the effect was lifted

    @property
    def rootkind(self):
        return self.loc[0][0]

    def where(self):
        return self.func.loc(self.node)

    def __repr__(self):
        return "<%s %s %s @%s%s>" % (self.op, self.state, _locstr(self.loc), self.where(),
                                     " via " + ">".join(c for c in self.chain) if self.chain else "")


def _locstr(loc):
    root, fields = loc
    r = root[0] + (":" + str(root[1].name if hasattr(root[1], "name") else root[1]) if len(root) > 1 else "")
    return r + "".join("." + f for f in fields)


class Effects:
    def __init__(self, prog, resolver):
        self.P = prog
        self.R = resolver
        self._prim = {}
        self._bind = {}
        self._fresh = {}
        self._ctor_fields = {}
        self._summary = None

    # ------------------------------------------------------------------
    # local bindings
    # ------------------------------------------------------------------
    def bindings(self, f):
        """name -> list of value exprs (None = opaque binding such as loop var)."""
        if f.qual in self._bind:
            return self._bind[f.qual]
        b = {}

        def add(t, v):
            if isinstance(t, ast.Name):
                b.setdefault(t.id, []).append(v)
            elif isinstance(t, (ast.Tuple, ast.List)):
                if isinstance(v, (ast.Tuple, ast.List)) and len(v.elts) == len(t.elts):
                    for x, y in zip(t.elts, v.elts):
                        add(x, y)
                else:
                    for x in t.elts:
                        add(x, None)
            elif isinstance(t, ast.Starred):
                add(t.value, None)

        for n in walk_shallow(f.node):
            if isinstance(n, ast.Assign):
                for t in n.targets:
                    add(t, n.value)
            elif isinstance(n, ast.AnnAssign) and n.value is not None:
                add(n.target, n.value)
            elif isinstance(n, ast.AugAssign):
                if isinstance(n.target, ast.Name):
                    b.setdefault(n.target.id, []).append(("aug", n))
                else:
                    add(n.target, None)
            elif isinstance(n, ast.For):
                add(n.target, None)
            elif isinstance(n, ast.comprehension):
                add(n.target, None)
            elif isinstance(n, ast.With):
                for it in n.items:
                    if it.optional_vars is not None:
                        add(it.optional_vars, ("with", it.context_expr))
            elif isinstance(n, ast.ExceptHandler) and n.name:
                b.setdefault(n.name, []).append(None)
            elif isinstance(n, ast.NamedExpr):
                add(n.target, n.value)
        self._bind[f.qual] = b
        return b

    def is_fresh_expr(self, e, f, depth=0):
        """Expression creates a new top-level object in this activation."""
        if e is None or depth > 4:
            return False
        if isinstance(e, (ast.List, ast.Dict, ast.Set, ast.Tuple, ast.ListComp, ast.DictComp, ast.SetComp,
                          ast.GeneratorExp, ast.JoinedStr)):
            return True
        if isinstance(e, ast.Constant):
            return True
        if isinstance(e, ast.Call):
            if isinstance(e.func, ast.Attribute) and e.func.attr == "copy" and not e.args:
                t = self.R.type_of(e.func.value, f)
                if t is None or t[0] == "c":
                    return True
            for tg in self.R.resolve_call(e, f, count=False):
                if tg.kind == "ctor":
                    return True
                if tg.kind == "ext" and tg.name in FRESH_EXT:
                    return True
                if tg.kind == "def":
                    g = tg.func
                    if g.is_generator and not g.is_ctxmgr:
                        return True
                    # a function all of whose returns are fresh
                    rets = [n for n in walk_shallow(g.node) if isinstance(n, ast.Return) and n.value is not None]
                    if rets and all(self._ret_fresh(r.value, g, depth + 1) for r in rets):
                        return True
            return False
        if isinstance(e, ast.Name):
            return self.local_fresh(e.id, f, depth + 1)
        if isinstance(e, ast.BinOp):
            return True  # arithmetic / concatenation builds a new value
        if isinstance(e, ast.IfExp):
            return self.is_fresh_expr(e.body, f, depth + 1) and self.is_fresh_expr(e.orelse, f, depth + 1)
        return False

    def _ret_fresh(self, e, g, depth):
        return self.is_fresh_expr(e, g, depth)

    def local_fresh(self, name, f, depth=0):
        if name in f.all_params():
            return False
        bs = self.bindings(f).get(name)
        if not bs:
            return False
        for v in bs:
            if v is None:
                return False
            if isinstance(v, tuple) and v[0] == "aug":
                continue  # in-place update keeps the identity of whatever the name holds
            if isinstance(v, tuple) and v[0] == "with":
                # the `as` value of a package context manager: fresh iff its yield value is
                ok = False
                if isinstance(v[1], ast.Call):
                    for tg in self.R.resolve_call(v[1], f, count=False):
                        if tg.kind == "def" and tg.func.is_ctxmgr:
                            ys = [n for n in walk_shallow(tg.func.node) if isinstance(n, ast.Yield)]
                            ok = bool(ys) and all(y.value is not None and self.is_fresh_expr(y.value, tg.func, depth + 1) for y in ys)
                if not ok:
                    return False
                continue
            if not self.is_fresh_expr(v, f, depth + 1):
                return False
        return True

    # ------------------------------------------------------------------
    # constructor field maps
    # ------------------------------------------------------------------
    def ctor_fields(self, cls):
        """field -> list of sources: ('param', name) | ('expr', ast) stored by __init__."""
        if cls.qual in self._ctor_fields:
            return self._ctor_fields[cls.qual]
        out = {}
        init = cls.methods.get("__init__")
        if init is not None:
            s = init.self_name
            for n in walk_shallow(init.node):
                tgt = val = None
                if isinstance(n, ast.Assign) and len(n.targets) == 1:
                    tgt, val = n.targets[0], n.value
                elif isinstance(n, ast.AnnAssign) and n.value is not None:
                    tgt, val = n.target, n.value
                if tgt is not None and isinstance(tgt, ast.Attribute) and isinstance(tgt.value, ast.Name) and tgt.value.id == s:
                    if isinstance(val, ast.Name) and val.id in init.all_params():
                        out.setdefault(tgt.attr, []).append(("param", val.id))
                    else:
                        out.setdefault(tgt.attr, []).append(("expr", val))
        self._ctor_fields[cls.qual] = out
        return out

    def bind_args(self, call, g, skip_self):
        """param name -> argument expr for a call of Func g (None when spilled)."""
        params = list(g.params)
        if skip_self and params:
            params = params[1:]
        m = {}
        i = 0
        for a in call.args:
            if isinstance(a, ast.Starred):
                break
            if i < len(params):
                m[params[i]] = a
            i += 1
        for k in call.keywords:
            if k.arg is not None:
                m[k.arg] = k.value
        return m

    def ctor_call_of(self, name, f):
        """If local `name` is bound exactly once to a constructor call of an
        analysed class, return (Class, call)."""
        bs = self.bindings(f).get(name)
        bs = [b_ for b_ in (bs or []) if not (isinstance(b_, tuple) and b_[0] == "aug")]
        if not bs or len(bs) != 1 or bs[0] is None or isinstance(bs[0], tuple):
            return None
        v = bs[0]
        if isinstance(v, ast.Call):
            for tg in self.R.resolve_call(v, f, count=False):
                if tg.kind == "ctor":
                    return tg.cls, v
        return None

    # ------------------------------------------------------------------
    # locations
    # ------------------------------------------------------------------
    def loc(self, e, f, depth=0):
        """Location of expression e (an object designator) or None."""
        if depth > 8:
            return (("unknown",), ())
        if isinstance(e, ast.Name):
            n = e.id
            if f.self_name == n and not f.is_classmethod and f.name != "__new__":
                return (("self", f.cls), ())
            if n in f.all_params():
                return (("param", n), ())
            g = f.parent
            while g is not None:
                if n in g.all_params():
                    return (("param", n), ())
                g = g.parent
            bs = self.bindings(f).get(n)
            if bs:
                plain = [b_ for b_ in bs if not (isinstance(b_, tuple) and b_[0] == "aug")]
                if len(plain) == 1 and isinstance(plain[0], (ast.Attribute, ast.Name)):
                    return self.loc(plain[0], f, depth + 1)
                if self.local_fresh(n, f):
                    t = self.R.type_of(e, f)
                    tag = t[1] if t and t[0] in ("inst", "c") else None
                    return (("fresh", n, tag), ())
                return (("local", n), ())
            return (("global", n), ())
        if isinstance(e, ast.Attribute):
            base = self.loc(e.value, f, depth + 1)
            if base is None:
                return None
            root, fields = base
            # field of a shallow copy is the very object the original holds in that field
            if root[0] == "fresh" and not fields and isinstance(root[1], str):
                bs_ = [b_ for b_ in (self.bindings(f).get(root[1]) or []) if not (isinstance(b_, tuple) and b_[0] == "aug")]
                if len(bs_) == 1 and isinstance(bs_[0], ast.Call) and len(bs_[0].args) == 1:
                    tgs_ = self.R.resolve_call(bs_[0], f, count=False)
                    if tgs_ and tgs_[0].kind == "ext" and tgs_[0].name == "copy.copy":
                        src_ = self.loc(bs_[0].args[0], f, depth + 1)
                        if src_ is not None:
                            return (src_[0], src_[1] + (e.attr,))
            # field of a fresh object built by a constructor aliases the ctor argument
            if root[0] == "fresh" and not fields:
                cc = self.ctor_call_of(root[1], f)
                if cc is not None:
                    cls, call = cc
                    srcs = self.ctor_fields(cls).get(e.attr, [])
                    psrcs = [s for s in srcs if s[0] == "param"]
                    if psrcs and len(psrcs) == len(srcs) or (psrcs and all(_is_const_expr(s[1]) for s in srcs if s[0] == "expr")):
                        init = cls.methods["__init__"]
                        amap = self.bind_args(call, init, True)
                        arg = amap.get(psrcs[0][1])
                        if arg is not None and not _is_const_expr(arg):
                            al = self.loc(arg, f, depth + 1)
                            if al is not None and al[0][0] != "unknown":
                                return al
            return (root, fields + (e.attr,))
        if isinstance(e, ast.Call):
            # x.copy() / constructor: fresh anonymous object
            if self.is_fresh_expr(e, f):
                return (("fresh", "<expr>", None), ())
            return (("unknown",), ())
        if isinstance(e, ast.Subscript):
            base = self.loc(e.value, f, depth + 1)
            if base is None:
                return None
            return (base[0], base[1] + ("[]",))
        return (("unknown",), ())

    def state_of(self, loc, f):
        """(state kind, owner class) for a location, following the STATE table."""
        root, fields = loc
        cls = None
        if root[0] == "self":
            cls = root[1]
        elif root[0] == "fresh" and hasattr(root[2], "qual"):
            cls = root[2]
        elif root[0] in ("param", "local"):
            t = self.R.type_of(ast.Name(id=root[1], ctx=ast.Load()), f)
            if t and t[0] == "inst":
                cls = t[1]
            elif root[0] == "param" and not fields and root[1] in spec.MAPPING_PARAM_NAMES:
                return ("DB", None)
        if cls is not None and fields:
            st = spec.STATE.get((cls.qual, fields[0]))
            if st:
                return (st[0], cls)
            # attribute that holds another analysed object (NodeIterator._trie)
            at = self.R.attr_type(cls, fields[0])
            if at and at[0] == "inst" and len(fields) > 1:
                st = spec.STATE.get((at[1].qual, fields[1]))
                if st:
                    return (st[0], at[1])
            return ("ATTR:" + fields[0], cls)
        return (None, cls)

    # ------------------------------------------------------------------
    # primitive effects
    # ------------------------------------------------------------------
    def primitives(self, f):
        if f.qual in self._prim:
            return self._prim[f.qual]
        out = []
        self._prim[f.qual] = out
        for n in walk_shallow(f.node):
            if isinstance(n, ast.Assign):
                for t in n.targets:
                    self._store(t, n.value, f, n, out)
            elif isinstance(n, ast.AnnAssign) and n.value is not None:
                self._store(n.target, n.value, f, n, out)
            elif isinstance(n, ast.AugAssign):
                self._store(n.target, n.value, f, n, out, aug=n.op)
            elif isinstance(n, ast.Delete):
                for t in n.targets:
                    if isinstance(t, ast.Subscript):
                        l = self.loc(t.value, f)
                        out.append(Effect("D", l, self.state_of(l, f)[0], f, n, key=t.slice))
                    elif isinstance(t, ast.Attribute):
                        l = self.loc(t.value, f)
                        l2 = (l[0], l[1] + (t.attr,))
                        out.append(Effect("DELATTR", l2, self.state_of(l2, f)[0], f, n))
            elif isinstance(n, ast.Call):
                if isinstance(n.func, ast.Name) and n.func.id in spec.FORBIDDEN_DYNAMIC:
                    raise AnalysisError("%s: dynamic access `%s(...)` hides effects from the analysis" % (f.loc(n), n.func.id))
                for tg in self.R.resolve_call(n, f, count=False):
                    if tg.kind == "cmeth":
                        l = self.loc(tg.recv, f)
                        st = self.state_of(l, f)[0]
                        if tg.meth in spec.MUTATING_METHODS:
                            op = "D" if tg.meth in spec.DELETING_METHODS else "W"
                            if tg.meth == "pop" and tg.ctype == "list":
                                op = "M"
                            if tg.ctype in ("list", "set", "sortedset") or (tg.ctype is None and st is None):
                                op = "M" if op == "W" else op
                            out.append(Effect(op, l, st, f, n, key=n.args[0] if n.args else None, meth=tg.meth))
                        elif st in spec.STORE_KINDS and tg.meth in ("get", "items", "keys", "values", "copy", "__getitem__"):
                            out.append(Effect("R", l, st, f, n, key=n.args[0] if n.args else None, meth=tg.meth))
            elif isinstance(n, ast.Subscript) and isinstance(n.ctx, ast.Load):
                l = self.loc(n.value, f)
                st = self.state_of(l, f)[0]
                if st in spec.STORE_KINDS or st == "DB":
                    out.append(Effect("R", l, st, f, n, key=n.slice))
            elif isinstance(n, ast.Compare) and len(n.ops) == 1 and isinstance(n.ops[0], (ast.In, ast.NotIn)):
                l = self.loc(n.comparators[0], f)
                st = self.state_of(l, f)[0]
                if st in spec.STORE_KINDS or st == "DB":
                    out.append(Effect("R", l, st, f, n, key=n.left, meth="in"))
            elif isinstance(n, ast.Attribute) and n.attr in ("__dict__", "__setattr__", "__delattr__"):
                raise AnalysisError("%s: dynamic attribute access `%s`" % (f.loc(n), n.attr))
        return out

    def _store(self, t, value, f, stmt, out, aug=None):
        if isinstance(t, ast.Attribute):
            l = self.loc(t.value, f)
            l2 = (l[0], l[1] + (t.attr,))
            out.append(Effect("SET", l2, self.state_of(l2, f)[0], f, stmt, value=value, meth=("aug" if aug else None)))
        elif isinstance(t, ast.Subscript):
            l = self.loc(t.value, f)
            out.append(Effect("W", l, self.state_of(l, f)[0], f, stmt, key=t.slice, value=value, meth=("aug" if aug else None)))
        elif isinstance(t, ast.Name) and aug is not None:
            # x += y / x -= y on a name: in-place for mutable containers
            l = self.loc(t, f)
            ty = self.R.type_of(t, f)
            mutable = ty is None or (ty[0] == "c" and ty[1] in ("list", "dict", "set", "sortedset", "mapping")) or ty[0] == "inst"
            if l is not None and mutable and l[0][0] not in ("local",):
                op = "D" if isinstance(aug, (ast.Sub, ast.BitAnd, ast.BitXor)) else "M"
                out.append(Effect(op, l, self.state_of(l, f)[0], f, stmt, value=value, meth="aug"))
        elif isinstance(t, (ast.Tuple, ast.List)):
            for x in t.elts:
                self._store(x, None, f, stmt, out, aug)
        elif isinstance(t, ast.Starred):
            self._store(t.value, None, f, stmt, out, aug)

    # ------------------------------------------------------------------
    # transitive summaries
    # ------------------------------------------------------------------
    def call_edges(self, f):
        """[(call node, Target)] for package-resolved calls in f."""
        out = []
        for n in walk_shallow(f.node):
            if isinstance(n, ast.Call):
                for tg in self.R.resolve_call(n, f, count=False):
                    if tg.kind in ("def", "ctor"):
                        out.append((n, tg))
        return out

    def lift(self, eff, call, tg, f):
        """Re-express a callee effect in the caller's locations, or None if it
        concerns an object local to the callee."""
        root, fields = eff.loc
        if tg.kind == "ctor":
            g = tg.cls.methods.get("__init__") or tg.cls.methods.get("__new__")
            if root[0] == "self":
                return None  # the object under construction is fresh
            recv = None
        else:
            g = tg.func
            recv = tg.recv
        if root[0] == "self":
            if recv is None:
                # classmethod receiver / unbound: effects on cls attributes are not state
                return None
            rl = self.loc(recv, f)
            if rl is None:
                return None
            newloc = (rl[0], rl[1] + fields)
            # re-resolve through constructor field aliasing
            if rl[0][0] == "fresh" and not rl[1] and fields:
                fake = ast.Attribute(value=recv, attr=fields[0], ctx=ast.Load())
                al = self.loc(fake, f)
                if al is not None:
                    newloc = (al[0], al[1] + fields[1:])
        elif root[0] == "param":
            amap = self.bind_args(call, g, skip_self=(tg.kind == "ctor" or (g.cls is not None and not g.is_static and recv is not None) or (g.cls is not None and g.is_classmethod)))
            arg = amap.get(root[1])
            if arg is None:
                return None
            al = self.loc(arg, f)
            if al is None:
                return None
            newloc = (al[0], al[1] + fields)
        elif root[0] in ("global", "unknown"):
            # module-level objects, and objects reached in a way the alias layer does not classify
            # (`type(self).x = ..`): the effect is the same effect for every caller
            newloc = eff.loc
        else:
            return None
        if newloc[0][0] == "fresh":
            return None  # object created by the caller itself
        st = self.state_of(newloc, f)[0] or eff.state
        e2 = Effect(eff.op, newloc, st, eff.func, eff.node, eff.key, eff.value, eff.meth,
                    chain=(f.loc(call),) + eff.chain)
        return e2

    def summaries(self):
        """qual -> list[Effect] (own primitives on non-fresh locations + lifted callee effects)."""
        if self._summary is not None:
            return self._summary
        S = {}
        for q, f in self.P.funcs.items():
            S[q] = [e for e in self.primitives(f) if e.loc is not None and e.loc[0][0] != "fresh"]
        keyset = {q: {self._ekey(e) for e in S[q]} for q in S}
        changed = True
        rounds = 0
        while changed and rounds < 15:
            changed = False
            rounds += 1
            for q, f in self.P.funcs.items():
                if f.is_template:
                    continue
                for call, tg in self.call_edges(f):
                    if tg.kind == "ctor":
                        gs = [tg.cls.methods.get(n) for n in ("__new__", "__init__")]
                    else:
                        gs = [tg.func]
                    for g in gs:
                        if g is None:
                            continue
                        for eff in list(S.get(g.qual, ())):
                            tg2 = tg
                            e2 = self.lift(eff, call, tg2, f)
                            if e2 is None:
                                continue
                            k = self._ekey(e2)
                            if k not in keyset[q]:
                                keyset[q].add(k)
                                S[q].append(e2)
                                changed = True
        self._summary = S
        return S

    @staticmethod
    def _ekey(e):
        return (e.op, e.state, e.loc[0][0], e.loc[0][1] if len(e.loc[0]) > 1 and isinstance(e.loc[0][1], str) else None,
                e.loc[1], e.func.qual, getattr(e.node, "lineno", 0), getattr(e.node, "col_offset", 0))


FRESH_EXT = {
    "collections.defaultdict", "sortedcontainers.SortedSet", "dict", "list", "set", "tuple", "frozenset",
    "bytes", "sorted", "eth_utils.toolz.merge", "eth_utils.toolz.valfilter", "eth_hash.auto.keccak",
    "eth_utils.keccak", "rlp.codec.encode_raw", "reversed", "iter", "map", "filter", "zip", "enumerate",
    "range", "itertools.chain", "hexbytes.HexBytes", "str", "int", "bytearray", "copy.copy",
}


def _is_const_expr(e):
    return isinstance(e, ast.Constant) or (isinstance(e, ast.Name) and e.id in ("None", "True", "False"))
