#!/venv/bin/python
"""Run the registered checks against every confirmed seeded change.

For each /verif/seeded/<id>/: apply patch.diff to /repo's working tree, run the quick check of the
seed's property (and of every other claimed property), undo the patch straight afterwards.
Writes /verif/seeded/<id>/meta.json and /verif/seeded/RESULTS.md.
"""
import json, os, subprocess, sys, glob, re

VERIF = os.path.dirname(os.path.dirname(os.path.abspath(__file__)))
sys.path.insert(0, VERIF)
only = sys.argv[1:]


def sh(cmd):
    return subprocess.run(cmd, shell=True, capture_output=True, text=True)


def repo_clean():
    return sh("git -C /repo status --short --untracked-files=no").stdout.strip() == ""


assert repo_clean(), "/repo has local modifications"
man = json.load(open(os.path.join(VERIF, "MANIFEST.json")))
claimed = [c["property_id"] for c in man["checks"]]
rows = []
for d in sorted(glob.glob(os.path.join(VERIF, "seeded", "C*-*"))):
    sid = os.path.basename(d)
    if only and sid not in only and sid.split("-")[0] not in only:
        # keep earlier result
        mp = os.path.join(d, "meta.json")
        if os.path.exists(mp):
            m = json.load(open(mp))
            rows.append((sid, m.get("breaks_property"), m.get("detected_by_own_property"), m.get("fired", {}), m.get("needs", "")))
        continue
    prop = sid.split("-")[0]
    patch = os.path.join(d, "patch.diff")
    r = sh("git -C /repo apply --check %s" % patch)
    if r.returncode != 0:
        rows.append((sid, prop, "patch-does-not-apply", {}, ""))
        continue
    sh("git -C /repo apply %s" % patch)
    fired = {}
    other = {}
    try:
        from concurrent.futures import ThreadPoolExecutor
        with ThreadPoolExecutor(16) as ex:
            results = list(ex.map(lambda pid: (pid, sh("cd %s && /venv/bin/python -m pta check %s --tier quick --no-write" % (VERIF, pid))), claimed))
        for pid, r in results:
            if r.returncode == 1:
                rules = sorted(set(re.findall(r"rule=(\w+) construct=(\S+)", r.stdout)))
                fired[pid] = ["%s %s" % x for x in rules]
            elif r.returncode != 0:
                other[pid] = [l for l in r.stdout.splitlines() if l.startswith("ANALYSIS-")][:3]
    finally:
        sh("git -C /repo checkout -- .")
    assert repo_clean()
    notes = ""
    np_ = os.path.join(d, "notes.md")
    if os.path.exists(np_):
        notes = open(np_).read()
    confirm = open(os.path.join(d, "confirm.txt")).read() if os.path.exists(os.path.join(d, "confirm.txt")) else ""
    detected = prop in fired
    if not detected and prop in other:
        detected = "exit 2 (inconclusive / analysis-error, not silent)"
    meta = {
        "id": sid,
        "breaks_property": prop,
        "needs": notes.strip().split("\n\n")[0][:600] if notes else "",
        "what_was_run": "confirmed independently in a scratch worktree (tools/confirm_seed.sh): " + " | ".join(confirm.strip().splitlines()[1:]),
        "checks_run": "git -C /repo apply patch.diff; /venv/bin/python -m pta check <P> --tier quick for every claimed property; git -C /repo checkout -- .",
        "detected_by_own_property": detected,
        "fired": fired,
        "inconclusive_or_error": other,
    }
    json.dump(meta, open(os.path.join(d, "meta.json"), "w"), indent=1)
    rows.append((sid, prop, detected, fired, meta["needs"]))
    print(sid, "DETECTED" if detected is True else ("EXIT2" if detected else "missed"), fired, other)
with open(os.path.join(VERIF, "seeded", "RESULTS.md"), "w") as fh:
    fh.write("# Seeded changes vs checks\n\n| seed | property | detected by its property's check | what fired | analysis-error/inconclusive |\n|---|---|---|---|---|\n")
    for sid, prop, det, fired, needs in rows:
        fh.write("| %s | %s | %s | %s | |\n" % (sid, prop, det, "; ".join("%s: %s" % (k, ", ".join(v)) for k, v in sorted(fired.items()))))
print("detected (exit 1 by own property) %d / %d; exit 2 only: %d; silent: %d" % (
    sum(1 for r in rows if r[2] is True), len(rows), sum(1 for r in rows if isinstance(r[2], str) and r[2].startswith("exit 2")),
    sum(1 for r in rows if r[2] is False)))
