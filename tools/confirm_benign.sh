#!/bin/bash
# usage: confirm_benign.sh <area> <i>   (worktree /tmp/benign/<area>, original copy /tmp/benign_orig_<area>)
# Confirms a behaviour-preserving patch: applies, suite passes, the agent's differential check reports no difference.
EQARGS=${EQARGS-1500}; A=$1; I=$2; BASE=${3:-/tmp/benign}; TAG=${4:-}; WT=$BASE/$A; SD=$WT/SEED/$I; OUT=/verif/benign/$A$TAG-$I
cd $WT || exit 9
git checkout -q -- . ; git apply --check $SD/patch.diff || { echo "REJECTED $A-$I patch-does-not-apply"; exit 1; }
git apply $SD/patch.diff
SUITE=$(PYTHONPATH=$WT timeout 900 /venv/bin/python -m pytest -q -p no:cacheprovider -n 6 tests/core --ignore=tests/core/test_iter.py --deselect tests/core/test_hexary_trie.py::test_fixtures_exist 2>&1 | tail -1)
EQ=$(cd $WT && timeout 1800 /venv/bin/python SEED/equiv.py $EQARGS 2>&1 | tail -3 | tr '\n' ' ')
EQRC=$?
git checkout -q -- .
echo "RESULT $A$TAG-$I suite=[$SUITE] equiv=[$EQ]"
case "$SUITE" in *"215 passed"*) S_OK=1;; *) S_OK=0;; esac
case "$EQ" in *"DIFFERENCES: 0"*|*"differences: 0"*|*"Differences: 0"*|*"differences=0"*|*" 0 differences"*) E_OK=1;; *) E_OK=0;; esac
if [ $S_OK = 1 ] && [ $E_OK = 1 ]; then
  mkdir -p $OUT; cp $SD/patch.diff $OUT/; [ -f $SD/notes.md ] && cp $SD/notes.md $OUT/
  cat > $OUT/confirm.txt <<EOT
confirmed in scratch worktree $WT (commit $(git rev-parse --short HEAD)):
suite with the patch: $SUITE
differential check against the original package (SEED/equiv.py 1500): $EQ
EOT
  echo "CONFIRMED $A$TAG-$I"
else
  echo "REJECTED $A$TAG-$I"
fi
