#!/venv/bin/python
"""Robustness sweep (development tool): rename one private function / method at a time (definition and every
reference in the package) and run the checks whose scope contains a touched file; every run must stay silent."""
import ast, json, os, re, sys, multiprocessing
sys.path.insert(0, os.path.dirname(os.path.dirname(os.path.abspath(__file__))))
from pta.model import load_sources
from pta import core

BASE = None


def job(args):
    name, src, props = args
    out = []
    for pid in props:
        try:
            code, ctx = core.run_property(pid, "quick", sources=src, write=False, quiet=True)
        except Exception as e:
            out.append((pid, 2, repr(e)[:100]))
            continue
        if code != 0:
            bad = [(o.rule, o.construct, o.verdict, o.reason[:90]) for o in ctx.obs if o.verdict in ("violation", "inconclusive", "error")][:2]
            out.append((pid, code, bad))
    return name, out


def main():
    global BASE
    BASE = load_sources()
    from pta import rules  # noqa
    claimed = sorted(core.PROP_RULES)
    names = {}
    for rel, text in BASE.items():
        if "/tools/" in rel:
            continue
        for n in ast.walk(ast.parse(text)):
            if isinstance(n, ast.FunctionDef) and n.name.startswith("_") and not n.name.startswith("__"):
                names.setdefault(n.name, set()).add(rel)
    work = []
    for name, rels in sorted(names.items()):
        if len(rels) != 1:
            continue  # same private name in two files: skip
        src = dict(BASE)
        touched = set()
        pat = re.compile(r"\b%s\b" % re.escape(name))
        for rel, text in BASE.items():
            if pat.search(text):
                src[rel] = pat.sub(name + "_rn", text)
                touched.add(rel)
        props = [p for p in claimed if touched & set(core.prop_scope(p) or ())]
        work.append((name, src, props))
    print("private functions to rename:", len(work))
    with multiprocessing.Pool(16) as pool:
        res = pool.map(job, work, chunksize=1)
    nbad = 0
    for name, out in res:
        if out:
            nbad += 1
            print("BRITTLE", name)
            for o in out[:4]:
                print("    ", o)
    print("renamed functions: %d, with alarms: %d" % (len(res), nbad))


main()
