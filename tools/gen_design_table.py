#!/venv/bin/python
"""Regenerate the verdict table of DESIGN.md section 0 from pta/propdoc.py."""
import os, re, sys
sys.path.insert(0, os.path.dirname(os.path.dirname(os.path.abspath(__file__))))
from pta.propdoc import DOC
ALL = {"C04", "C17", "C18"}
p = os.path.join(os.path.dirname(os.path.dirname(os.path.abspath(__file__))), "DESIGN.md")
s = open(p).read()
rows = []
for i in range(1, 19):
    pid = "C%02d" % i
    if pid == "C09":
        rows.append("| C09 | **not applicable** | - | see section 6 |")
        continue
    d = DOC[pid]
    rows.append("| %s | %s | %s | %s |" % (pid, "**all structural clauses**" if pid in ALL else "partial", d[0].replace("|", "/"), d[1].replace("|", "/")))
head = "|-----|---------|-------------------------------|-------------|\n"
i = s.index(head) + len(head)
j = s.index("\n\n", i)
s = s[:i] + "\n".join(rows) + s[j:]
open(p, "w").write(s)
print("table regenerated:", len(rows), "rows")
