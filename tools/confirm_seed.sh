#!/bin/bash
# usage: confirm_seed.sh <worktree> <seed dir> <out dir> <property>
# Confirms a seeded change in its own scratch worktree: compiles, suite passes, demo fails with / passes without.
WT=$1; SD=$2; OUT=$3; PROP=$4
cd $WT || exit 9
git checkout -q -- . ; git status --short | grep -v '^??' && exit 8
git apply --check $SD/patch.diff || { echo "RESULT $PROP $SD patch-does-not-apply"; exit 1; }
git apply $SD/patch.diff
/venv/bin/python -c "import sys; sys.path.insert(0,'$WT'); import trie, trie.fog, trie.iter, trie.smt, trie.branches" || { git checkout -q -- .; echo "RESULT $PROP $SD import-fails"; exit 1; }
SUITE=$(PYTHONPATH=$WT timeout 900 /venv/bin/python -m pytest -q -p no:cacheprovider -n 6 tests/core --ignore=tests/core/test_iter.py --deselect tests/core/test_hexary_trie.py::test_fixtures_exist 2>&1 | tail -1)
PYTHONPATH=$WT timeout 600 /venv/bin/python $SD/demo.py > /tmp/seed/demo_with.log 2>&1; WITH=$?
git checkout -q -- .
PYTHONPATH=$WT timeout 600 /venv/bin/python $SD/demo.py > /tmp/seed/demo_without.log 2>&1; WITHOUT=$?
echo "RESULT $PROP $SD suite=[$SUITE] demo_with=$WITH demo_without=$WITHOUT"
case "$SUITE" in *"215 passed"*) S_OK=1;; *) S_OK=0;; esac
if [ $S_OK = 1 ] && [ $WITH != 0 ] && [ $WITHOUT = 0 ]; then
  mkdir -p $OUT; cp $SD/patch.diff $SD/demo.py $OUT/; [ -f $SD/notes.md ] && cp $SD/notes.md $OUT/
  cat > $OUT/confirm.txt <<EOT
confirmed in scratch worktree $WT (commit $(git rev-parse --short HEAD)):
suite with change: $SUITE
demo with change: exit $WITH
demo without change: exit $WITHOUT
EOT
  echo "CONFIRMED $PROP $OUT"
else
  echo "REJECTED $PROP $SD"
fi
