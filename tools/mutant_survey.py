#!/venv/bin/python
"""Detection-power survey (development tool): single-token mutants of every function of the package, each
run in memory against the property checks whose scope contains the file.  Prints, per mutant, which checks
fired; the SILENT list is what has to be triaged by hand (equivalent mutant / outside every property /
blind spot).  Nothing is written to /repo.

usage: mutant_survey.py [--out file.jsonl] [file or function filters ...]"""
import ast, copy, json, os, sys, multiprocessing, textwrap
sys.path.insert(0, os.path.dirname(os.path.dirname(os.path.abspath(__file__))))
from pta.model import load_sources
from pta import core

from pta.mutants import sites, apply, _replace  # noqa: E402,F401
from pta.refactor import splice  # noqa: E402


BASE = None


def job(args):
    rel, qual, desc, newsrc, props = args
    src = dict(BASE)
    src[rel] = newsrc
    fired, inconc = {}, []
    for pid in props:
        try:
            code, ctx = core.run_property(pid, "quick", sources=src, write=False, quiet=True)
        except Exception as e:
            inconc.append(pid)
            continue
        if code == 1:
            fired[pid] = sorted({o.rule for o in ctx.obs if o.verdict == "violation"})
        elif code != 0:
            inconc.append(pid)
    return {"file": rel, "func": qual, "mutant": desc, "fired": fired, "inconclusive": inconc}


def main(argv):
    global BASE
    out = None
    if argv and argv[0] == "--out":
        out = argv[1]
        argv = argv[2:]
    BASE = load_sources()
    props = {}
    for l in open(os.path.join(core.VERIF, "properties.jsonl")):
        p = json.loads(l)
        props[p["id"]] = core.prop_scope(p["id"])
    from pta import rules  # noqa
    claimed = sorted(core.PROP_RULES)
    work = []
    for rel, src in sorted(BASE.items()):
        if "/tools/" in rel or rel.endswith("__init__.py"):
            continue
        tree = ast.parse(src)
        inner = set()
        for n in ast.walk(tree):
            if isinstance(n, ast.FunctionDef):
                for m in ast.walk(n):
                    if isinstance(m, ast.FunctionDef) and m is not n:
                        inner.add(m)
        for n in ast.walk(tree):
            if isinstance(n, ast.FunctionDef) and n not in inner:
                if argv and not any(a in n.name or a == rel for a in argv):
                    continue
                ps = [p for p in claimed if rel in (props.get(p) or ())]
                for desc, idx, m in sites(n):
                    try:
                        new = apply(n, idx, m)
                        newsrc = splice(src, n, new)
                        ast.parse(newsrc)
                    except Exception:
                        continue
                    work.append((rel, "%s@%d" % (n.name, n.lineno), desc, newsrc, ps))
    print("mutants:", len(work), file=sys.stderr)
    with multiprocessing.Pool(16) as pool:
        res = pool.map(job, work, chunksize=4)
    nf = sum(1 for r in res if r["fired"])
    ni = sum(1 for r in res if not r["fired"] and r["inconclusive"])
    ns = len(res) - nf - ni
    if out:
        with open(out, "w") as fh:
            for r in res:
                fh.write(json.dumps(r) + "\n")
    byfunc = {}
    for r in res:
        k = (r["file"], r["func"])
        d = byfunc.setdefault(k, [0, 0, 0])
        d[0 if r["fired"] else (1 if r["inconclusive"] else 2)] += 1
    for (rel, fn), (a, b, c) in sorted(byfunc.items()):
        print("%-28s %-40s fired %3d  inconclusive %3d  silent %3d" % (rel, fn, a, b, c))
    print("mutants %d: fired %d, inconclusive only %d, silent %d" % (len(res), nf, ni, ns))


main(sys.argv[1:])
