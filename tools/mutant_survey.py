#!/venv/bin/python
"""Detection-power survey (development tool): single-token mutants of every function of the package, each
run in memory against the property checks whose scope contains the file.  Prints, per mutant, which checks
fired; the SILENT list is what has to be triaged by hand (equivalent mutant / outside every property /
blind spot).  Nothing is written to /repo.

usage: mutant_survey.py [--out file.jsonl] [file or function filters ...]"""
import ast, copy, json, os, sys, multiprocessing, textwrap
sys.path.insert(0, os.path.dirname(os.path.dirname(os.path.abspath(__file__))))
from pta.model import load_sources
from pta import core

CMP = {ast.Lt: [ast.LtE, ast.Gt], ast.LtE: [ast.Lt, ast.GtE], ast.Gt: [ast.GtE, ast.Lt], ast.GtE: [ast.Gt, ast.LtE], ast.Eq: [ast.NotEq], ast.NotEq: [ast.Eq],
       ast.In: [ast.NotIn], ast.NotIn: [ast.In], ast.Is: [ast.IsNot], ast.IsNot: [ast.Is]}
BIN = {ast.Add: [ast.Sub], ast.Sub: [ast.Add], ast.LShift: [ast.RShift], ast.RShift: [ast.LShift], ast.BitAnd: [ast.BitOr], ast.BitOr: [ast.BitAnd],
       ast.FloorDiv: [ast.Mod], ast.Mod: [ast.FloorDiv], ast.Mult: [ast.Add]}


def sites(fn):
    """yield (description, mutate(node_copy_root) -> None) closures addressed by node index in ast.walk order"""
    nodes = list(ast.walk(fn))
    for i, n in enumerate(nodes):
        if isinstance(n, ast.Compare):
            for j, op in enumerate(n.ops):
                for alt in CMP.get(type(op), []):
                    yield ("cmp %s->%s @%d" % (type(op).__name__, alt.__name__, n.lineno), i, ("cmp", j, alt))
        elif isinstance(n, ast.BinOp):
            if isinstance(n.op, ast.Mod) and isinstance(n.left, ast.Constant) and isinstance(n.left.value, str):
                continue  # string formatting
            for alt in BIN.get(type(n.op), []):
                yield ("bin %s->%s @%d" % (type(n.op).__name__, alt.__name__, n.lineno), i, ("bin", alt))
        elif isinstance(n, ast.BoolOp):
            alt = ast.Or if isinstance(n.op, ast.And) else ast.And
            yield ("bool %s->%s @%d" % (type(n.op).__name__, alt.__name__, n.lineno), i, ("bool", alt))
        elif isinstance(n, ast.UnaryOp) and isinstance(n.op, ast.Not):
            yield ("drop not @%d" % n.lineno, i, ("dropnot",))
        elif isinstance(n, ast.Constant) and not isinstance(n.value, str):
            v = n.value
            if isinstance(v, bool):
                yield ("const %r->%r @%d" % (v, not v, n.lineno), i, ("const", not v))
            elif isinstance(v, int):
                for w in (v + 1, v - 1):
                    yield ("const %r->%r @%d" % (v, w, n.lineno), i, ("const", w))
            elif isinstance(v, bytes):
                w = b"\x00" if v == b"" else b""
                yield ("const %r->%r @%d" % (v, w, n.lineno), i, ("const", w))
            elif v is None:
                pass
        elif isinstance(n, ast.If) and not (isinstance(n.test, ast.UnaryOp) and isinstance(n.test.op, ast.Not)):
            yield ("negate if @%d" % n.lineno, i, ("negif",))
        elif isinstance(n, ast.Call) and len(n.args) >= 2 and not any(isinstance(a, ast.Starred) for a in n.args):
            for j in range(len(n.args) - 1):
                if ast.dump(n.args[j]) != ast.dump(n.args[j + 1]):
                    yield ("swap args %d,%d of %s @%d" % (j, j + 1, ast.unparse(n.func)[:30], n.lineno), i, ("swapargs", j))
        elif isinstance(n, ast.Subscript) and isinstance(n.slice, ast.Slice) and n.slice.step is None:
            if (n.slice.lower is None) != (n.slice.upper is None):
                yield ("slice flip @%d" % n.lineno, i, ("sliceflip",))
        elif isinstance(n, ast.Expr) and isinstance(n.value, ast.Call):
            yield ("delete stmt `%s` @%d" % (ast.unparse(n)[:40], n.lineno), i, ("delstmt",))
        elif isinstance(n, ast.Return) and n.value is not None and not isinstance(n.value, ast.Constant):
            pass
        elif isinstance(n, (ast.Break, ast.Continue)):
            yield ("%s->%s @%d" % (type(n).__name__, "Continue" if isinstance(n, ast.Break) else "Break", n.lineno), i, ("brk",))
        if isinstance(n, ast.Name) and isinstance(n.ctx, ast.Load):
            pass


def apply(fn, idx, m):
    new = copy.deepcopy(fn)
    nodes = list(ast.walk(new))
    n = nodes[idx]
    k = m[0]
    if k == "cmp":
        n.ops[m[1]] = m[2]()
    elif k == "bin":
        n.op = m[1]()
    elif k == "bool":
        n.op = m[1]()
    elif k == "dropnot":
        _replace(new, n, n.operand)
    elif k == "const":
        n.value = m[1]
    elif k == "negif":
        n.test = ast.UnaryOp(op=ast.Not(), operand=n.test)
    elif k == "swapargs":
        j = m[1]
        n.args[j], n.args[j + 1] = n.args[j + 1], n.args[j]
    elif k == "sliceflip":
        n.slice.lower, n.slice.upper = n.slice.upper, n.slice.lower
    elif k == "delstmt":
        _replace(new, n, ast.Pass())
    elif k == "brk":
        _replace(new, n, ast.Continue() if isinstance(n, ast.Break) else ast.Break())
    return new


def _replace(root, old, new):
    for p in ast.walk(root):
        for fld, val in ast.iter_fields(p):
            if val is old:
                setattr(p, fld, new)
                return
            if isinstance(val, list):
                for i, x in enumerate(val):
                    if x is old:
                        val[i] = new
                        return


def splice(src, fn, new):
    ast.fix_missing_locations(new)
    lines = src.splitlines(keepends=True)
    start = (fn.decorator_list[0].lineno if fn.decorator_list else fn.lineno) - 1
    end = fn.end_lineno
    indent = len(lines[fn.lineno - 1]) - len(lines[fn.lineno - 1].lstrip())
    text = textwrap.indent(ast.unparse(new), " " * indent) + "\n"
    return "".join(lines[:start]) + text + "".join(lines[end:])


BASE = None


def job(args):
    rel, qual, desc, newsrc, props = args
    src = dict(BASE)
    src[rel] = newsrc
    fired, inconc = {}, []
    for pid in props:
        try:
            code, ctx = core.run_property(pid, "quick", sources=src, write=False, quiet=True)
        except Exception as e:
            inconc.append(pid)
            continue
        if code == 1:
            fired[pid] = sorted({o.rule for o in ctx.obs if o.verdict == "violation"})
        elif code != 0:
            inconc.append(pid)
    return {"file": rel, "func": qual, "mutant": desc, "fired": fired, "inconclusive": inconc}


def main(argv):
    global BASE
    out = None
    if argv and argv[0] == "--out":
        out = argv[1]
        argv = argv[2:]
    BASE = load_sources()
    props = {}
    for l in open(os.path.join(core.VERIF, "properties.jsonl")):
        p = json.loads(l)
        props[p["id"]] = core.prop_scope(p["id"])
    from pta import rules  # noqa
    claimed = sorted(core.PROP_RULES)
    work = []
    for rel, src in sorted(BASE.items()):
        if "/tools/" in rel or rel.endswith("__init__.py"):
            continue
        tree = ast.parse(src)
        inner = set()
        for n in ast.walk(tree):
            if isinstance(n, ast.FunctionDef):
                for m in ast.walk(n):
                    if isinstance(m, ast.FunctionDef) and m is not n:
                        inner.add(m)
        for n in ast.walk(tree):
            if isinstance(n, ast.FunctionDef) and n not in inner:
                if argv and not any(a in n.name or a == rel for a in argv):
                    continue
                ps = [p for p in claimed if rel in (props.get(p) or ())]
                for desc, idx, m in sites(n):
                    try:
                        new = apply(n, idx, m)
                        newsrc = splice(src, n, new)
                        ast.parse(newsrc)
                    except Exception:
                        continue
                    work.append((rel, "%s@%d" % (n.name, n.lineno), desc, newsrc, ps))
    print("mutants:", len(work), file=sys.stderr)
    with multiprocessing.Pool(16) as pool:
        res = pool.map(job, work, chunksize=4)
    nf = sum(1 for r in res if r["fired"])
    ni = sum(1 for r in res if not r["fired"] and r["inconclusive"])
    ns = len(res) - nf - ni
    if out:
        with open(out, "w") as fh:
            for r in res:
                fh.write(json.dumps(r) + "\n")
    byfunc = {}
    for r in res:
        k = (r["file"], r["func"])
        d = byfunc.setdefault(k, [0, 0, 0])
        d[0 if r["fired"] else (1 if r["inconclusive"] else 2)] += 1
    for (rel, fn), (a, b, c) in sorted(byfunc.items()):
        print("%-28s %-40s fired %3d  inconclusive %3d  silent %3d" % (rel, fn, a, b, c))
    print("mutants %d: fired %d, inconclusive only %d, silent %d" % (len(res), nf, ni, ns))


main(sys.argv[1:])
