#!/venv/bin/python
"""Development check of the normal-form passes (loops, dispatch, inline, norm): the syntax trees the analyser
works on are unparsed back into source, and py-trie's own test suite is run against that source in a scratch
copy of the repository (outside /repo and /verif, removed afterwards).  If a pass changed behaviour, tests fail.
Runs on the current tree and on every patch of the benign corpus in which a pass fires.

usage: validate_passes.py [benign ids ...]"""
import ast, os, shutil, subprocess, sys, tempfile, textwrap
sys.path.insert(0, os.path.dirname(os.path.dirname(os.path.abspath(__file__))))
from pta import core, seeds
from pta.model import load_sources, repo_root

SUITE = ["-m", "pytest", "-q", "-x", "-p", "no:cacheprovider", "-n", "4", "tests/core", "--ignore=tests/core/test_iter.py",
         "--deselect", "tests/core/test_hexary_trie.py::test_fixtures_exist"]


def transformed_sources(src):
    ctx = core.Ctx(src, "quick")
    out = dict(src)
    changed = []
    by_file = {}
    for f in ctx.P.funcs.values():
        if f.module.is_tools or f.parent is not None:
            continue
        orig = getattr(f, "node_orig", None)
        if f.wrapped_by is not None:
            continue  # prune_pending wrapper inlining is an analysis view, not source
        base = orig if orig is not None else None
        cur = f.node
        # functions whose tree was modified by a pass
        ref = base if base is not None else None
        if ref is None:
            # in-place passes (norm.py) leave no node_orig: compare against a fresh parse
            continue
        if ast.dump(ref) != ast.dump(cur):
            by_file.setdefault(f.module.rel, []).append((ref, cur, f.qual))
    # in-place passes: compare every function with a fresh parse of the file
    for rel, text in src.items():
        if "/tools/" in rel or not rel.startswith("trie/"):
            continue
        fresh = {}
        tree = ast.parse(text)
        for n in ast.walk(tree):
            if isinstance(n, ast.FunctionDef):
                fresh[n.lineno] = n
        for f in ctx.P.funcs.values():
            if f.module.rel != rel or f.parent is not None or f.wrapped_by is not None:
                continue
            o = getattr(f, "node_orig", None) or f.node
            key = o.lineno
            if key in fresh and ast.dump(fresh[key]) != ast.dump(f.node) and not any(q == f.qual for _, _, q in by_file.get(rel, [])):
                by_file.setdefault(rel, []).append((fresh[key], f.node, f.qual))
    for rel, items in by_file.items():
        lines = out[rel].splitlines(keepends=True)
        for ref, cur, qual in sorted(items, key=lambda x: -x[0].lineno):
            start = (ref.decorator_list[0].lineno if ref.decorator_list else ref.lineno) - 1
            end = ref.end_lineno
            indent = len(lines[ref.lineno - 1]) - len(lines[ref.lineno - 1].lstrip())
            new = ast.fix_missing_locations(cur)
            text = textwrap.indent(ast.unparse(new), " " * indent) + "\n"
            lines[start:end] = [text]
            changed.append(qual)
        out[rel] = "".join(lines)
    # bindings the passes entered in a module's import table (unqualified module access, re-homed methods)
    for m in ctx.P.modules.values():
        if m.is_tools or m.rel not in by_file:
            continue
        tree = ast.parse(src[m.rel])
        bound = set()
        for n in ast.walk(tree):  # (function-local imports included: the package uses them to avoid import cycles)
            if isinstance(n, (ast.Import, ast.ImportFrom)):
                bound |= {(a.asname or a.name).split(".")[0] for a in n.names}
        for n in tree.body:
            if isinstance(n, (ast.FunctionDef, ast.ClassDef)):
                bound.add(n.name)
        extra = []
        for local, imp in m.imports.items():
            if local in bound:
                continue
            if imp[0] == "pkg" and imp[2] is not None:
                extra.append("from %s import %s as %s\n" % (imp[1], imp[2], local))
            elif imp[0] == "ext" and "." in imp[1]:
                extra.append("from %s import %s as %s\n" % (imp[1].rsplit(".", 1)[0], imp[1].rsplit(".", 1)[1], local))
        if extra:
            # after the last top-level import statement
            last = max([n.end_lineno for n in tree.body if isinstance(n, (ast.Import, ast.ImportFrom))] or [0])
            lines = out[m.rel].splitlines(keepends=True)
            # function rewrites above may have shifted lines below the import block only
            lines[last:last] = extra
            out[m.rel] = "".join(lines)
    return out, changed


def run_suite(src, label, patched_tests=True, patch=None):
    tmp = tempfile.mkdtemp(prefix="pta-passes-")
    try:
        root = repo_root()
        for d in ("tests", "trie"):
            shutil.copytree(os.path.join(root, d), os.path.join(tmp, d))
        for f in ("setup.py", "pytest.ini", "tox.ini", "conftest.py", "pyproject.toml"):
            if os.path.exists(os.path.join(root, f)):
                shutil.copy(os.path.join(root, f), tmp)
        for rel, text in src.items():
            if rel.startswith("trie/"):
                p = os.path.join(tmp, rel)
                os.makedirs(os.path.dirname(p), exist_ok=True)
                with open(p, "w") as fh:
                    fh.write(text)
        if patch and patched_tests and "+++ b/tests/" in open(patch).read():
            subprocess.run(["git", "apply", "--whitespace=nowarn", "--include=tests/*", patch], cwd=tmp, capture_output=True, text=True)
        env = dict(os.environ, PYTHONPATH=tmp)
        r = subprocess.run(["/venv/bin/python"] + SUITE, cwd=tmp, env=env, capture_output=True, text=True, timeout=900)
        last = (r.stdout.strip().splitlines() or ["?"])[-1]
        return "215 passed" in last, last
    finally:
        shutil.rmtree(tmp, ignore_errors=True)


def main(ids):
    base = load_sources()
    jobs = [("current tree", base, None)]
    for bid in (ids or seeds.benign_ids()):
        s, err = seeds.patched_sources(os.path.join(seeds.VERIF, "benign", bid, "patch.diff"), base)
        if s is not None:
            jobs.append((bid, s, os.path.join(seeds.VERIF, "benign", bid, "patch.diff")))
    bad = 0
    for label, src, patch in jobs:
        new, changed = transformed_sources(src)
        if not changed:
            print("%-14s no pass fired" % label)
            continue
        ok, last = run_suite(new, label, patch=patch)
        if not ok:
            # a rename that the passes undid: the unpatched tests are the ones that fit the rewritten source
            ok, last = run_suite(new, label, patched_tests=False)
        if not ok:
            ok, last = run_suite(new, label, patch=patch)  # hypothesis deadline flakes under load
        print("%-14s %d functions rewritten (%s): %s" % (label, len(changed), ", ".join(sorted(set(c.split(":")[-1] for c in changed)))[:90], "suite passes" if ok else "SUITE FAILS: " + last))
        bad += 0 if ok else 1
    print("passes validated on %d source sets, %d failed" % (len(jobs), bad))
    return 1 if bad else 0


sys.exit(main(sys.argv[1:]))
