#!/venv/bin/python
"""Robustness sweep (development tool): apply one behaviour-preserving refactoring to one function at a
time and run the checks that look at that file; every run must stay silent (exit 0).

modes:  rename   every local gets a new name
        ifswap   `if c: A else: B`  ->  `if not c: B else: A`
        cmpflip  `a < b` -> `b > a`, `a == b` -> `b == a` (operands without effects only)
        rettemp  `return e` -> `rv_ = e; return rv_`
        augexpand `x <<= 1` -> `x = x << 1`
        elsify   `if c: return x; rest` -> `if c: return x else: rest`
        inlinetmp `x = e; use(x)` -> `use(e)` for single-use temporaries
        kwargify positional arguments of same-file callees -> keyword arguments
usage: refactor_sweep.py <mode> [name filter ...]"""
import ast, copy, json, os, sys, multiprocessing, textwrap
sys.path.insert(0, os.path.dirname(os.path.dirname(os.path.abspath(__file__))))
from pta.model import load_sources
from pta import core


from pta.refactor import MODES, SIGS, splice, index_signatures  # noqa: E402


def job(args):
    rel, qual, newsrc, props, base = args
    src = dict(base); src[rel] = newsrc
    out = []
    for pid in props:
        try:
            code, ctx = core.run_property(pid, "quick", sources=src, write=False, quiet=True)
        except Exception as e:
            out.append((pid, 2, [("-", "-", "exception", repr(e)[:120])]))
            continue
        if code != 0:
            bad = [(o.rule, o.construct, o.verdict, o.reason[:120]) for o in ctx.obs if o.verdict in ("violation", "inconclusive", "error")] if ctx else [("-", "-", "error", "no ctx")]
            out.append((pid, code, bad[:3]))
    return qual, out


def main(mode, only):
    base = load_sources()
    props = {}
    for l in open(os.path.join(core.VERIF, "properties.jsonl")):
        p = json.loads(l)
        props[p["id"]] = set(p["anchors"]["files"]) | {"trie/utils/nodes.py", "trie/utils/nibbles.py", "trie/utils/db.py", "trie/validation.py", "trie/exceptions.py", "trie/typing.py", "trie/utils/binaries.py"}
    from pta import rules  # noqa
    claimed = sorted(core.PROP_RULES)
    work = []
    for rel, src in base.items():
        if "/tools/" in rel:
            continue
        tree = ast.parse(src)
        index_signatures(tree)
        # innermost functions only are spliced (outer ones would overlap)
        for n in ast.walk(tree):
            if isinstance(n, ast.FunctionDef):
                new = MODES[mode](n)
                if new is None:
                    continue
                newsrc = splice(src, n, new)
                try:
                    ast.parse(newsrc)
                except SyntaxError:
                    continue
                ps = [p for p in claimed if rel in props.get(p, ())]
                if only and not any(o in n.name or o == rel for o in only):
                    continue
                work.append((rel, "%s:%s@%d" % (rel, n.name, n.lineno), newsrc, ps, base))
    print("mode %s: functions transformed: %d" % (mode, len(work)))
    with multiprocessing.Pool(16) as pool:
        res = pool.map(job, work, chunksize=2)
    nbad = 0
    for qual, out in res:
        if out:
            nbad += 1
            print("BRITTLE", qual)
            for pid, code, bad in out:
                print("    ", pid, code, bad[:2])
    print("mode %s: transformed functions: %d, with alarms: %d" % (mode, len(res), nbad))


main(sys.argv[1], sys.argv[2:])
