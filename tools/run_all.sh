#!/bin/bash
# Regenerate MANIFEST, run every claimed quick check against /repo, validate manifest + evidence.
cd /verif
/venv/bin/python tools/gen_manifest.py || exit 1
rc=0
for p in $(/venv/bin/python -c "import json;print(' '.join(c['property_id'] for c in json.load(open('MANIFEST.json'))['checks']))"); do
  out=$(/venv/bin/python -m pta check $p --tier ${1:-quick} 2>&1 | tail -1); code=$?
  echo "$out"
  case "$out" in *"exit=0"*) ;; *) rc=1;; esac
done
/opt/veriftools/pyvenv/bin/python - <<'PY'
import json, jsonschema, glob
jsonschema.validate(json.load(open('/verif/MANIFEST.json')), json.load(open('/root/.vp/MANIFEST.schema.json')))
sch=json.load(open('/root/.vp/EVIDENCE.schema.json'))
m=json.load(open('/verif/MANIFEST.json'))
for c in m['checks']:
    jsonschema.validate(json.load(open(c['evidence_file'])), sch)
print('manifest + %d evidence files valid' % len(m['checks']))
PY
exit $rc
