#!/venv/bin/python
"""Robustness sweep (development tool): rename every local variable of one function at a time and run
the checks that look at that file; every run must stay silent (exit 0).  Reports brittle rules."""
import ast, json, os, sys, multiprocessing, textwrap
sys.path.insert(0, os.path.dirname(os.path.dirname(os.path.abspath(__file__))))
from pta.model import load_sources
from pta import core


def locals_of(fn):
    params = {a.arg for a in fn.args.posonlyargs + fn.args.args + fn.args.kwonlyargs}
    if fn.args.vararg: params.add(fn.args.vararg.arg)
    if fn.args.kwarg: params.add(fn.args.kwarg.arg)
    names = set()
    for n in ast.walk(fn):
        if isinstance(n, (ast.FunctionDef, ast.Lambda, ast.ClassDef)) and n is not fn:
            return None  # nested scopes: skip
        if isinstance(n, ast.Name) and isinstance(n.ctx, (ast.Store, ast.Del)):
            names.add(n.id)
        elif isinstance(n, ast.ExceptHandler) and n.name:
            names.add(n.name)
        elif isinstance(n, (ast.Global, ast.Nonlocal)):
            return None
        elif isinstance(n, (ast.Import, ast.ImportFrom)):
            return None
    return names - params


def rename(src, fn):
    loc = locals_of(fn)
    if not loc:
        return None
    class R(ast.NodeTransformer):
        def visit_Name(self, n):
            if n.id in loc:
                return ast.copy_location(ast.Name(id=n.id + "_rn", ctx=n.ctx), n)
            return n
        def visit_ExceptHandler(self, n):
            self.generic_visit(n)
            if n.name in loc:
                n.name = n.name + "_rn"
            return n
    import copy
    new = R().visit(copy.deepcopy(fn))
    ast.fix_missing_locations(new)
    lines = src.splitlines(keepends=True)
    start = (fn.decorator_list[0].lineno if fn.decorator_list else fn.lineno) - 1
    end = fn.end_lineno
    indent = len(lines[fn.lineno - 1]) - len(lines[fn.lineno - 1].lstrip())
    text = textwrap.indent(ast.unparse(new), " " * indent) + "\n"
    return "".join(lines[:start]) + text + "".join(lines[end:])


def job(args):
    rel, qual, newsrc, props, base = args
    src = dict(base); src[rel] = newsrc
    out = []
    for pid in props:
        code, ctx = core.run_property(pid, "quick", sources=src, write=False, quiet=True)
        if code != 0:
            bad = [(o.rule, o.construct, o.verdict, o.reason[:120]) for o in ctx.obs if o.verdict in ("violation", "inconclusive", "error")] if ctx else [("-", "-", "error", "no ctx")]
            out.append((pid, code, bad[:3]))
    return qual, out


def main():
    base = load_sources()
    props = {}
    for l in open(os.path.join(core.VERIF, "properties.jsonl")):
        p = json.loads(l)
        props[p["id"]] = set(p["anchors"]["files"]) | {"trie/utils/nodes.py", "trie/utils/nibbles.py", "trie/utils/db.py", "trie/validation.py", "trie/exceptions.py", "trie/typing.py", "trie/utils/binaries.py"}
    from pta import rules  # noqa
    claimed = sorted(core.PROP_RULES)
    work = []
    for rel, src in base.items():
        if "/tools/" in rel:
            continue
        tree = ast.parse(src)
        for n in ast.walk(tree):
            if isinstance(n, ast.FunctionDef):
                new = rename(src, n)
                if new is None:
                    continue
                try:
                    ast.parse(new)
                except SyntaxError:
                    continue
                ps = [p for p in claimed if rel in props.get(p, ())]
                if only and not any(o in n.name or o == rel for o in only):
                    continue
                work.append((rel, "%s:%s@%d" % (rel, n.name, n.lineno), new, ps, base))
    print("functions to rename:", len(work))
    with multiprocessing.Pool(16) as pool:
        res = pool.map(job, work, chunksize=2)
    nbad = 0
    for qual, out in res:
        if out:
            nbad += 1
            print("BRITTLE", qual)
            for pid, code, bad in out:
                print("    ", pid, code, bad[:2])
    print("renamed functions: %d, with alarms: %d" % (len(res), nbad))

only = sys.argv[1:]
main()
