#!/venv/bin/python
"""Regenerate MANIFEST.json from the registered rules (claimed = has rules and listed in CLAIMED)."""
import json, os, sys
sys.path.insert(0, os.path.dirname(os.path.dirname(os.path.abspath(__file__))))
from pta import core, propdoc
from pta import rules  # noqa

NOT_APPLICABLE = {
    "C09": "The fog-guided walk is a protocol run by the caller, not code in the package; the property quantifies over all "
           "schedules interleaving walk steps with set/delete and over which keys the walk 'meets'. No effect, ordering, alias or "
           "agreement rule over the source bounds that; the only honest examination is to run walks, which is a different technique "
           "(DESIGN.md section 6). The library-side facts the walk depends on are decided under C08, C10 and C11.",
}
props = [json.loads(l) for l in open(os.path.join(core.VERIF, "properties.jsonl"))]
claimed = [p["id"] for p in props if p["id"] in core.PROP_RULES and p["id"] not in NOT_APPLICABLE]
checks = []
for pid in claimed:
    d = propdoc.DOC[pid]
    rules_ = sorted({r for r, _ in core.PROP_RULES[pid]})
    checks.append({
        "property_id": pid,
        "quick_cmd": "/venv/bin/python -m pta check %s --tier quick" % pid,
        "thorough_cmd": "/venv/bin/python -m pta check %s --tier thorough" % pid,
        "evidence_file": "/verif/evidence/%s.json" % pid,
        "replay_cmd_template": "/venv/bin/python -m pta replay {path}",
        "engine": "pta",
        "level_claimed": {
            "category": "other",
            "text": "Obligation-discharging static analysis (partial): for ALL paths of the current source it decides the structural "
                    "clauses that are necessary conditions of the property - " + d[0] + ". It does not decide: " + d[1] +
                    ". Rules: " + ", ".join(rules_) + ". Thorough tier additionally self-validates the rules on in-memory "
                    "must-fire / must-stay-silent variants of the current tree.",
            "design_ref": "DESIGN.md sections 0, 3 and 4 (%s)" % pid,
        },
        "level_note": "Trusted: CPython ast, the pta engine, assumptions A1-A4 (DESIGN.md section 9): mapping-like db and "
                      "collision-free keccak; well-formed stored nodes; the modelled Python semantics and exception sources; no "
                      "monkey-patching. A green check means every listed obligation is discharged on the current tree, not that "
                      "the whole behavioural property holds.",
        "technique": "static analysis: " + d[2],
    })
na = [{"property_id": p["id"], "reason": NOT_APPLICABLE.get(p["id"], "check under construction (see DESIGN.md)")}
      for p in props if p["id"] not in claimed]
m = {
    "version": 1,
    "setup_cmd": "/venv/bin/python -m compileall -q pta",
    "hooks": {
        "guard": "PY_TRIE_VERIF",
        "enable": "none needed: the checks read /repo's source text and never execute it (guard is unused, no hook commits)",
        "baseline_off_cmd": "cd /repo && /venv/bin/python -m pytest -ra -q -p no:cacheprovider --timeout=900 --continue-on-collection-errors",
        "source_commits": [],
        "add_only": True,
    },
    "engines": [{
        "name": "pta", "path": "pta", "serves_properties": claimed,
        "kind_free_text": "repository-specific static analyser on stdlib ast: fail-closed call resolution, syntax-directed path "
                          "enumeration with typed exception outcomes, interprocedural exception flow, effect/alias summaries on "
                          "resolved state designators, symbolic terms with Kind/Len/truth/eq domains, context-sensitive feasibility",
    }],
    "checks": checks,
    "not_applicable": na,
    "notes": "Static analysis only. Genuine defects found and repaired are listed in /verif/known_findings.json (fixed entries "
             "suppress nothing). Seeded changes used to test the checks are under /verif/seeded/.",
}
json.dump(m, open(os.path.join(core.VERIF, "MANIFEST.json"), "w"), indent=1)
print("claimed:", claimed)
print("not applicable:", [x["property_id"] for x in na])
